"""C08 - results do not depend on the unit system; flux per triangle."""
from __future__ import annotations

import ast

from ..alg import AtomTable, Rat
from ..dims import (DimInterp, DimMismatch, Quant, UnitStr, UnitV, device_model, lenient_env, solver_scales,
                    check_j_scale, dv, B_DIM)
from ..interp import Cols, Field, Frame, Obj, Opaque, Unsupported, Vec2
from ..src import AnalysisError, loc, norm, own_nodes

SOLVER = "tdgl.solver.solver"
TECH = ("dimension typing with exact unit-size factors: the repository's pint expressions are run through a model of "
        "pint (units = exact term x SI exponent vector); scales compared with their physical definitions; "
        "symbolic flux sum around a triangle")


def phys(ip: DimInterp):
    T = ip.T
    xi, lam, d = T.real("xi"), T.real("lam"), T.real("d")
    xi_p, lam_p, d_p = xi * ip.kL, lam * ip.kL, d * ip.kL
    Lam = lam_p ** 2 / d_p
    Bc2 = ip.Phi0 / (2 * ip.pi * xi_p ** 2)
    A0 = xi_p * Bc2
    K0 = 4 * xi_p * Bc2 / (ip.mu0 * Lam)
    return dict(xi=xi, xi_p=xi_p, lam_p=lam_p, d_p=d_p, Lam=Lam, Bc2=Bc2, A0=A0, K0=K0)


def check(ctx):
    repo = ctx.repo
    ctx.rule("R08.10", "the terminal data the solver reads on the device is selected without an absolute tolerance in length units (membership radius 0)", 2)
    from .c13 import no_absolute_length_tolerance
    no_absolute_length_tolerance(ctx, "R08.10", "the same physical device stated in another length unit (mm instead of um) gets other terminal sites, edges and "
                                                "contact lengths - 1e-3 length units is a nanometre in um and a micrometre in mm - so it solves a different dimensionless "
                                                "problem")
    ctx.rule("R08.9", "in the post-processing functions that take `units`, a quantity is stripped of its units (`.magnitude`) only after it was converted "
                      "to explicit units on every path (flow-sensitive reaching definitions; two confirmed by-construction exceptions)", 12)
    ctx.rule("R08.8", "the unit labels of a Solution (field_units, current_units) are stored when it is created; they are not read through "
                      "the caller's mutable options object", 2)
    ctx.rule("R08.7", "the scales the solver reads from the device (K0, A0, Bc2 ...) are recomputed on every access, never memoised", 6)
    ctx.rule("R08.6", "a function that takes a unit parameter hands it on to every callee that takes the same parameter (no silent fall-back to the callee's default unit)", 5)
    ctx.rule("R08.1", "every .to(unit) converts between equal dimensions; every bare scale the solver uses equals its "
                      "physical definition as an exact term in the unit sizes kL, kB, kI", 8)
    ctx.rule("R08.5", "time-dependent drives are re-evaluated exactly like in the constructor (same points, same A_scale, same components)", 2)
    ctx.rule("R08.2", "documented constants: Bc2 = Phi0/(2 pi xi^2), A0 = xi Bc2, K0 = 4 xi Bc2/(mu0 Lambda), Lambda = lambda^2/d", 4)
    ctx.rule("R08.3", "sum of link exponents around a triangle in a uniform field == 2 pi B Area / Phi0", 1)
    ctx.rule("R08.4", "unit strings are never compared with literals in library code (no unit system is special-cased)", 1)
    if ctx.prop == "C08":
        from .c13 import scales_not_memoised
        scales_not_memoised(ctx, "R08.7")
    try:
        T, ip, dev, me, fr, fi = solver_scales(repo)
    except DimMismatch as e:
        fi = repo.func(SOLVER, "TDGLSolver.__init__")
        ctx.ob("R08.1", "dimension typing of TDGLSolver.__init__", False, detail=str(e), where=fi.fq,
               construct="unit conversion", loc=loc(fi, fi.node), message=f"dimension error: {e}",
               consequence="pint raises DimensionalityError at run time, or a scale carries the wrong dimension")
        return
    # the solver converts into the user's units, never into a spelled-out one: a literal unit in a `.to(...)` of the constructor
    # special-cases one unit system (R08.1: the scale is then right for that system only)
    for n_ in own_nodes(fi.node):
        if isinstance(n_, ast.Call) and isinstance(n_.func, ast.Attribute) and n_.func.attr == "to" and n_.args \
                and isinstance(n_.args[0], ast.Constant) and isinstance(n_.args[0].value, str) and n_.args[0].value.strip() not in ("", "dimensionless"):
            ctx.ob("R08.1", f"TDGLSolver.__init__: `{norm(n_)[:70]}` converts into the user's units", False, where=fi.fq, loc=loc(fi, n_),
                   construct=f"literal unit in {norm(n_)[:60]}",
                   message=f"`{norm(n_)[:90]}` converts into the literal unit {n_.args[0].value!r} instead of the device's / options' units",
                   consequence="the scale is right only when the user's units happen to be the spelled-out ones: the same problem stated in other units "
                               "gets another dimensionless solution")
    P = phys(ip)
    # a scale the lenient evaluation could not compute (an idiom outside the unit model) is not a wrong scale: say so
    for nm_ in ("A_scale", "areas", "sites", "edge_centers"):
        v_ = me.attrs.get(nm_)
        if isinstance(v_, Opaque) and "unsupported" in str(getattr(v_, "desc", v_)):
            raise AnalysisError(f"TDGLSolver.__init__: self.{nm_} is outside the unit model ({str(getattr(v_, 'desc', v_))[:160]})")
    # -- scales in the solver ----------------------------------------------------------
    a_scale = me.attrs.get("A_scale")
    want = 2 * ip.pi * P["xi_p"] * ip.kB * ip.kL / ip.Phi0
    ctx.ob("R08.1", "A_scale == 2 pi xi [field_units][length_units] / Phi0 (link exponent = (2 pi/Phi0) A . e)",
           isinstance(a_scale, Rat) and a_scale == want, detail={"A_scale": str(a_scale), "expected": str(want)},
           where=fi.fq, construct="self.A_scale", loc=loc(fi, fi.node),
           message=f"A_scale = {a_scale}, expected {want}",
           consequence="the same physical field gives different link variables in different unit systems")
    areas = me.attrs.get("areas")
    want = ip.mu0 / (4 * ip.pi) * P["K0"] / P["A0"] * P["xi_p"] ** 2 / ip.kL * T.real("areas")
    ctx.ob("R08.1", "screening weights == mu0/(4 pi) K0/A0 * areas * xi^2 (in 1/length_units)",
           isinstance(areas, Rat) and areas == want, detail={"areas": str(areas), "expected": str(want)},
           where=fi.fq, construct="self.areas", loc=loc(fi, fi.node),
           message=f"screening weights = {areas}, expected {want}",
           consequence="the induced vector potential depends on the unit system (screening strength changes with units)")
    for attr, fld in (("sites", "sites"), ("edge_centers", "ctr")):
        v = me.attrs.get(attr)
        ok = isinstance(v, Vec2) and v.x == P["xi"] * T.real(fld + ".x") and v.y == P["xi"] * T.real(fld + ".y")
        ctx.ob("R08.1", f"self.{attr} == xi * mesh coordinates (numbers in length_units)", ok, detail=str(v),
               where=fi.fq, construct=f"self.{attr}", loc=loc(fi, fi.node), message=f"self.{attr} = {v}",
               consequence="potentials are evaluated at positions scaled by the wrong length")
    check_j_scale(ctx)   # R01.5 obligations (J_scale) are part of the unit contract too
    for t in ip.to_log:
        ctx.ob("R08.1", f"TDGLSolver.__init__: {t[3]}", t[2], detail={"from": t[0], "to": t[1]}, where=fi.fq,
               construct=t[3], message=f"conversion between [{t[0]}] and [{t[1]}]", consequence="DimensionalityError")

    # -- Device properties ---------------------------------------------------------------
    T2 = AtomTable()
    ip2 = DimInterp(repo, T2)
    dev2 = device_model(repo, ip2)
    P2 = phys(ip2)
    fdev = repo.cls("tdgl.device.device", "Device")
    expect = {"Bc2": (P2["Bc2"], B_DIM), "A0": (P2["A0"], dv(M=1, L=1, T=-2, I=-1)),
              "K0": (P2["K0"], dv(I=1, L=-1)), "Lambda": (P2["Lam"], dv(L=1)),
              "coherence_length": (P2["xi_p"], dv(L=1))}
    for prop, (val, dims) in expect.items():
        try:
            q = ip2.getattr(dev2, prop)
            ok = isinstance(q, Quant) and q.unit.dims == dims and isinstance(q.mag, Rat) and q.si() == val
            det = {"value_SI": str(q.si()) if isinstance(q, Quant) else str(q), "expected": str(val)}
        except Unsupported as e:
            ok, det = False, {"error": str(e)}
        m = repo.method(fdev, prop)
        ctx.ob("R08.2", f"Device.{prop} == documented formula", ok, detail=det, where=m.fq, construct=f"Device.{prop}",
               loc=loc(m, m.node), message=f"Device.{prop} is {det}",
               consequence="every physical output scaled by this constant is wrong by a unit-dependent factor")
    for meth, dims in (("tau0", dv(T=1)), ("V0", dv(M=1, L=2, T=-3, I=-1))):
        m = repo.method(fdev, meth)
        try:
            q = ip2.call_method(dev2, meth, [], {})
            ok = isinstance(q, Quant) and q.unit.dims == dims
            det = str(q)
        except Unsupported as e:
            ok, det = False, str(e)
        ctx.ob("R08.1", f"Device.{meth}() has the dimension of {'time' if meth == 'tau0' else 'voltage'}", ok,
               detail=det, where=m.fq, construct=f"Device.{meth}", loc=loc(m, m.node), message=det,
               consequence="pint raises DimensionalityError / wrong physical scale")

    # -- the time-dependent evaluation sites use the same scale and the same points as the constructor ------
    units_forwarded(ctx)
    solution_unit_labels(ctx)
    stripped_after_conversion(ctx)
    drive_siblings(ctx)
    # -- conversions in post-processing ------------------------------------------------------
    post_processing(ctx)

    # -- R08.3 flux per triangle -----------------------------------------------------------------
    fc = repo.func("tdgl.sources.constant", "constant_field_vector_potential")
    T3 = AtomTable()
    ip3 = DimInterp(repo, T3)
    x, y, z, B = T3.real("x"), T3.real("y"), T3.real("z"), T3.real("B")
    try:
        A = ip3.call_function(fc, [x, y, z], dict(Bz=B, field_units=UnitStr("field"), length_units=UnitStr("length")))
        if not (isinstance(A, Cols) and len(A.cols) == 3):
            raise Unsupported(f"constant_field_vector_potential returned {A!r}")
        P3 = phys(ip3)
        a_scale3 = 2 * ip3.pi * P3["xi_p"] * ip3.kB * ip3.kL / ip3.Phi0   # verified equal to self.A_scale above
        pts = [(T3.real(f"x{i}"), T3.real(f"y{i}")) for i in range(3)]
        total = Rat.const(T3, 0)
        half = Rat.const(T3, 1) / 2
        for i in range(3):
            (xa, ya), (xb, yb) = pts[i], pts[(i + 1) % 3]
            mid = {"x": (xa + xb) * half, "y": (ya + yb) * half}
            Ax, Ay = A.cols[0].subst(mid), A.cols[1].subst(mid)
            # link exponent: A_scale * A(mid) . (r_b - r_a)/xi     (directions are in units of xi)
            total = total + a_scale3 * (Ax * (xb - xa) + Ay * (yb - ya)) / P3["xi"]
        area = ((pts[1][0] - pts[0][0]) * (pts[2][1] - pts[0][1]) - (pts[2][0] - pts[0][0]) * (pts[1][1] - pts[0][1])) * half
        want = 2 * ip3.pi * (B * ip3.kB) * (area * ip3.kL ** 2) / ip3.Phi0
        ok, det = total == want, {"sum": str(total)[:300], "expected": str(want)[:300]}
        for t in ip3.to_log:
            ctx.ob("R08.1", f"constant_field_vector_potential: {t[3]}", t[2], detail={"from": t[0], "to": t[1]},
                   where=fc.fq, construct=t[3], message=f"conversion between [{t[0]}] and [{t[1]}]",
                   consequence="DimensionalityError")
    except DimMismatch as e:
        ok, det = False, {"error": str(e)}
    ctx.ob("R08.3", "sum over the three edges of A_scale * A(mid) . (r_j - r_i)/xi == 2 pi B Area / Phi0", ok, detail=det,
           where=fc.fq, construct="flux per triangle", loc=loc(fc, fc.node),
           message=f"gauge phase around a triangle is not 2 pi x flux/Phi0: {det}",
           consequence="the number of vortices admitted by a given applied field depends on the unit system / is wrong")

    # -- R08.4 -----------------------------------------------------------------------------
    bad = []
    nfun = 0
    for f in repo.all_functions():
        nfun += 1
        for n in own_nodes(f.node):
            if isinstance(n, ast.Compare):
                sides = [n.left] + n.comparators
                names = [s for s in sides if (isinstance(s, ast.Name) and s.id.endswith("_units")) or
                         (isinstance(s, ast.Attribute) and s.attr.endswith("_units"))]
                lits = [s for s in sides if isinstance(s, ast.Constant) and isinstance(s.value, str)]
                if names and lits:
                    bad.append(f"{f.fq} L{n.lineno}: {norm(n)}")
    ctx.ob("R08.4", f"no comparison of a *_units string with a literal in {nfun} functions", not bad, detail=bad,
           where="repo", construct="unit-string comparisons", message=f"unit strings are special-cased: {bad}",
           consequence="one unit system takes a different code path")
    ctx.assume("pint's own conversion tables are trusted; user unit strings denote a length, a flux density and a current")
    ctx.decline("equality 'to rounding' of two complete runs in different unit systems")


def post_processing(ctx):
    """Every `.to(...)` in the post-processing code, evaluated best-effort in the pint model."""
    repo = ctx.repo
    targets = [
        ("tdgl.solution.solution", "Solution.load_tdgl_data"),
        ("tdgl.solution.solution", "Solution._compute_vorticity"),
        ("tdgl.solution.solution", "Solution.magnetic_moment"),
        ("tdgl.solution.solution", "Solution.vector_potential_at_position"),
        ("tdgl.solution.solution", "Solution.current_through_path"),
        ("tdgl.solution.data", "get_current_through_paths"),
        ("tdgl.em", "biot_savart_2d"),
        ("tdgl.em", "current_loop_vector_potential"),
        ("tdgl.em", "uniform_Bz_vector_potential"),
        ("tdgl.sources.loop", "loop_vector_potential"),
    ]
    evaluated = 0
    syntactic = 0
    for mod, qual in targets:
        f = repo.func(mod, qual)
        syntactic += sum(1 for n in own_nodes(f.node) if isinstance(n, ast.Call) and isinstance(n.func, ast.Attribute)
                         and n.func.attr == "to")
        T = AtomTable()
        ip = DimInterp(repo, T)
        dev = device_model(repo, ip)
        mesh = Obj(None, {"areas": Field("areas", "site", sign="pos"), "sites": Field("sites", "site", comps=2),
                          "center_of_mass": (T.real("cx"), T.real("cy")),
                          "edge_mesh": Obj(None, {"normalized_directions": Field("ndir", "edge", comps=2)})}, label="mesh")
        dev.attrs["mesh"] = mesh
        cur_len = ip.parse_unit([UnitStr("current"), " / ", UnitStr("length")])
        sol = Obj(repo.cls("tdgl.solution.solution", "Solution"), {
            "device": dev, "_current_units": UnitStr("current"), "_field_units": UnitStr("field"),
            "supercurrent_density": Quant(Vec2(T.real("Ksx"), T.real("Ksy")), cur_len),
            "normal_current_density": Quant(Vec2(T.real("Knx"), T.real("Kny")), cur_len),
            "path": "p", "tdgl_data": Obj(None, {"supercurrent": T.real("js"), "normal_current": T.real("jn")}),
        }, label="solution")
        env = {"self": sol, "solve_step": 0, "h5file": None, "units": None, "with_units": True, "zs": T.real("zs"),
               "positions": Cols([T.real("px"), T.real("py")]), "return_sum": True, "path_coords": Opaque("path"),
               "dataset": None, "method": "linear", "solution_path": "p", "paths": Opaque("paths"),
               "interp_method": "linear", "progress_bar": False,
               "x": T.real("x"), "y": T.real("y"), "z": T.real("z"), "z0": T.real("z0"), "areas": T.real("a"),
               "current_densities": Cols([T.real("Jx"), T.real("Jy")]),
               "length_units": UnitStr("length"), "current_units": UnitStr("current"), "field_units": UnitStr("field"),
               "vector": True, "loop_center": Cols([T.real("c0"), T.real("c1"), T.real("c2")]),
               "loop_radius": T.real("R"), "current": T.real("I"), "radius": T.real("R"),
               "center": Cols([T.real("c0"), T.real("c1"), T.real("c2")]),
               "Bz": Quant(T.real("B"), ip.units["tesla"])}
        if qual == "uniform_Bz_vector_potential":
            env["positions"] = Cols([T.real("x"), T.real("y"), T.real("z")])
        if qual == "get_current_through_paths":
            env["solution"] = sol
        try:
            lenient_env(ip, f, env)
        except DimMismatch as e:
            ctx.ob("R08.1", f"{f.fq}: dimension error", False, detail=str(e), where=f.fq, construct=str(e)[:120],
                   loc=loc(f, f.node), message=f"dimension error: {e}",
                   consequence="pint raises DimensionalityError for every input, or a result carries the wrong dimension")
            continue
        for t in ip.to_log:
            evaluated += 1
            ctx.ob("R08.1", f"{qual}: {t[3]}", t[2], detail={"from": t[0], "to": t[1]}, where=f.fq, construct=t[3],
                   message=f"conversion between [{t[0]}] and [{t[1]}]", consequence="DimensionalityError")
    ctx.note("post_processing_to_calls", {"syntactic": syntactic, "evaluated_in_model": evaluated})


def drive_siblings(ctx):
    from ..dataflow import expanded_text
    repo = ctx.repo
    fi = repo.func(SOLVER, "TDGLSolver.__init__")
    fu = repo.func(SOLVER, "TDGLSolver.update_applied_vector_potential")
    fe = repo.func(SOLVER, "TDGLSolver.update_epsilon")

    from ..dataflow import expansions

    def column_of(fn, a):
        """a column of an (n, 2) array, however it is taken: `X[:, i]`, `X.T[i]`, or the i-th name of `x, y = X.T`  ->  `X[:, i]`"""
        if isinstance(a, ast.Subscript) and isinstance(a.value, ast.Attribute) and a.value.attr == "T" and isinstance(a.slice, ast.Constant):
            return f"{norm(a.value.value)}[:, {a.slice.value}]"
        if isinstance(a, ast.Name):
            for st in ast.walk(fn):
                if isinstance(st, ast.Assign) and len(st.targets) == 1 and isinstance(st.targets[0], ast.Tuple) \
                        and isinstance(st.value, ast.Attribute) and st.value.attr == "T":
                    names = [getattr(t_, "id", None) for t_ in st.targets[0].elts]
                    if a.id in names and sum(1 for t_ in ast.walk(fn) if isinstance(t_, ast.Name) and t_.id == a.id and isinstance(t_.ctx, ast.Store)) == 1:
                        return f"{norm(st.value.value)}[:, {names.index(a.id)}]"
        return norm(a)

    def describe(fn, expr, at):
        """every way the value can be computed, reduced to what matters: where A is evaluated, the scale, the components kept"""
        out = []
        for e in expansions(fn, expr, at):
            calls = [c for c in ast.walk(e) if isinstance(c, ast.Call) and norm(c.func) == "self.applied_vector_potential"]
            if len({norm(c) for c in calls}) != 1:
                out.append({"error": f"{len(calls)} evaluations of the potential in `{norm(e)[:80]}`"})
                continue
            c = calls[0]
            inside = lambda node: any(x is c for x in ast.walk(node))
            scaled = [b_ for b_ in ast.walk(e) if isinstance(b_, ast.BinOp) and isinstance(b_.op, ast.Mult)
                      and ((norm(b_.left) == "self.A_scale" and inside(b_.right)) or (norm(b_.right) == "self.A_scale" and inside(b_.left)))]
            other_scale = [norm(b_)[:60] for b_ in ast.walk(e) if isinstance(b_, ast.BinOp) and isinstance(b_.op, (ast.Mult, ast.Div)) and inside(b_)
                           and b_ not in scaled]
            xy = [s_ for s_ in ast.walk(e) if isinstance(s_, ast.Subscript) and inside(s_.value) and norm(s_.slice).strip("()").replace(" ", "") == ":,:2"]
            out.append({"at": [column_of(fn, a) for a in c.args], "keywords": sorted(k.arg or "**" for k in c.keywords),
                        "time": [norm(k.value) for k in c.keywords if k.arg == "t"],
                        "scaled_once": len(scaled) == 1 and not other_scale, "xy": len(xy) == 1})
        return out
    want_at = ["self.edge_centers[:, 0]", "self.edge_centers[:, 1]", "self.z0"]
    rets = [n for n in own_nodes(fu.node) if isinstance(n, ast.Return) and n.value is not None]
    d1 = [d for r in rets for d in describe(fu.node, r.value, r)]
    ok1 = bool(d1) and all(d.get("at") == want_at and d.get("time") == ["time"] and d.get("scaled_once") and d.get("xy") for d in d1)
    stores0 = [n for n in own_nodes(fi.node) if isinstance(n, ast.Assign) and any(norm(t) == "self.current_A_applied" for t in n.targets)]
    d0 = [d for st in stores0 for d in describe(fi.node, st.value, st)]
    ok0 = bool(d0) and all(d.get("at") == want_at and d.get("scaled_once") and d.get("xy") for d in d0)
    ctx.ob("R08.5", "update_applied_vector_potential evaluates A at (edge centres, z0, t=time) and scales the x,y components by A_scale, like __init__",
           ok0 and ok1, detail={"init": d0[:3], "update": d1[:3]},
           where=fu.fq, construct="time-dependent vector potential evaluation", loc=loc(fu, fu.node),
           message="the time-dependent vector potential is evaluated or scaled differently from the initial one",
           consequence="a time-dependent applied field jumps by a unit-dependent factor at the first step (A(t) and A(0) use different scales or points)")
    e0 = [n for n in own_nodes(fi.node) if isinstance(n, ast.Call) and norm(n.func) == "disorder_epsilon"]
    e1 = [n for n in own_nodes(fe.node) if isinstance(n, ast.Call) and norm(n.func) == "self.disorder_epsilon"]
    def point_arg(fn, c):
        """Canonical text of the position argument: a comprehension variable is named by what it ranges over."""
        a = c.args[0]
        if isinstance(a, ast.Name):
            for comp in ast.walk(fn):
                if isinstance(comp, (ast.ListComp, ast.GeneratorExp, ast.SetComp)) and any(x is c for x in ast.walk(comp)):
                    for g in comp.generators:
                        if isinstance(g.target, ast.Name) and g.target.id == a.id:
                            return f"each({norm(g.iter)})"
            # the same loop written as a statement: `for r in X` / `for i, r in enumerate(X)`
            for lp in ast.walk(fn):
                if isinstance(lp, ast.For) and any(x is c for x in ast.walk(lp)):
                    it, tg = lp.iter, lp.target
                    if isinstance(it, ast.Call) and norm(it.func) == "enumerate" and it.args and isinstance(tg, ast.Tuple) and len(tg.elts) == 2:
                        it, tg = it.args[0], tg.elts[1]
                    if isinstance(tg, ast.Name) and tg.id == a.id:
                        from ..dataflow import expanded_text
                        return f"each({expanded_text(fn, it)})"
        return norm(a)
    a0 = sorted(point_arg(fi.node, c) for c in e0 if c.args)
    a1 = sorted(point_arg(fe.node, c) for c in e1 if c.args)
    ok = a0 == a1 == ["each(self.sites)", "self.sites"] and all(any(k.arg == "t" and norm(k.value) == "time" for k in c.keywords) for c in e1)
    ctx.ob("R08.5", "update_epsilon evaluates epsilon at the same points (self.sites / each r in self.sites) with t=time", ok,
           detail={"init": a0, "update": a1}, where=fe.fq, construct="time-dependent epsilon evaluation", loc=loc(fe, fe.node),
           message=f"epsilon evaluation sites differ: init {a0}, update {a1}", consequence="a time-dependent disorder map is sampled at other positions after t=0")


def units_forwarded(ctx):
    from ..src import FuncInfo
    repo = ctx.repo
    for f in repo.all_functions():
        if f.module.name.startswith(("tdgl.test", "tdgl.visualization")):
            continue
        ps = [a.arg for a in f.node.args.args + f.node.args.kwonlyargs]
        ups = [p_ for p_ in ps if p_.endswith("_units")]
        if not ups:
            continue
        env = repo.local_types(f)
        for c in own_nodes(f.node):
            if not isinstance(c, ast.Call):
                continue
            g = repo.resolve_call(f, c, env)
            if not isinstance(g, FuncInfo) or g is f:
                continue
            gpos = [a.arg for a in g.node.args.args]
            gps = gpos + [a.arg for a in g.node.args.kwonlyargs]
            bound = 1 if gpos and gpos[0] in ("self", "cls") and isinstance(c.func, ast.Attribute) else 0
            for p_ in ups:
                if p_ not in gps:
                    continue
                kw = {k.arg for k in c.keywords}
                star = any(k.arg is None for k in c.keywords)
                positional = p_ in gpos and gpos.index(p_) - bound < len(c.args)
                ok = p_ in kw or star or positional
                ctx.ob("R08.6", f"{f.qual} -> {g.qual}: `{p_}` handed on", ok, where=f.fq,
                       construct=f"{p_} not forwarded from {f.qual} to {g.qual}", loc=loc(f, c),
                       message=f"{f.qual} takes `{p_}` but calls {g.qual}({norm(c)[len(norm(c.func)) + 1:][:60]}...) without it: the callee falls back to its default unit",
                       consequence="the same physical input stated in other units gives another dimensionless problem (off by the ratio of the units)")


def solution_unit_labels(ctx):
    """R08.8: Solution.field_units / current_units label every number the solution hands out.  The options object is shared with the
    caller (neither the solver nor the Solution copies it), so the labels must be the solution's own attributes, written at
    construction only."""
    repo = ctx.repo
    S = repo.cls("tdgl.solution.solution", "Solution")
    defs = [d for d in S.node.body if isinstance(d, ast.FunctionDef)]
    for name in ("field_units", "current_units"):
        getters = [d for d in defs if d.name == name and any(norm(x) == "property" for x in d.decorator_list)]
        if len(getters) != 1:
            raise AnalysisError(f"Solution.{name} is no longer a property")
        g = getters[0]
        rets = [r.value for r in ast.walk(g) if isinstance(r, ast.Return) and r.value is not None]
        own = [r for r in rets if isinstance(r, ast.Attribute) and isinstance(r.value, ast.Name) and r.value.id == "self"]
        attr = own[0].attr if len(rets) == 1 and len(own) == 1 else None
        writers = []
        if attr is not None:
            for d in defs:
                for x in ast.walk(d):
                    if isinstance(x, ast.Attribute) and x.attr == attr and isinstance(x.ctx, ast.Store) and isinstance(x.value, ast.Name) and x.value.id == "self":
                        writers.append(d.name)
        through = sorted({norm(x) for r in rets for x in ast.walk(r) if isinstance(x, ast.Attribute) and norm(x) in ("self.options", "self.device", "self.tdgl_data")})
        ok = attr is not None and writers and set(writers) <= {"__init__"} and not through
        f = S.methods.get(name)
        ctx.ob("R08.8", f"Solution.{name} returns an attribute of the solution that only __init__ writes", ok,
               detail={"returns": [norm(r) for r in rets], "written_by": sorted(set(writers)), "reads_through": through}, where=f"{S.fq}.{name}",
               construct=f"Solution.{name} label", loc=loc(f, g) if f else "",
               message=f"Solution.{name} returns {[norm(r) for r in rets]}" + (f", read through {through}: the options object belongs to the caller" if through else ""),
               consequence="re-using one SolverOptions object for a second solve in other units (or assigning options.field_units after a solve) relabels the "
                           "numbers of the earlier Solution: its applied vector potential is off by the ratio of the two units")


# quantities that carry a known unit by construction: stripping them needs no conversion
STRIP_OK = {
    "device.coherence_length": "Device.coherence_length is layer.coherence_length * ureg(length_units): always in the device's length units",
    "self.device.coherence_length": "as above",
}


def stripped_after_conversion(ctx):
    """R08.9.  Every function of tdgl.solution / tdgl.em that takes a `units` parameter: each `.magnitude` / `.m` must be applied to a
    value that, along every reaching definition, came out of `.to(...)` / `convert_field(...)`.  A bare number taken from a quantity
    in "whatever unit it had" is in the unit system the device happened to be stated in."""
    from ..cfg import build_cfg, parent_map
    from ..dataflow import reaching_defs
    repo = ctx.repo

    def conv(e):
        return any(isinstance(c, ast.Call) and ((isinstance(c.func, ast.Attribute) and c.func.attr in ("to", "ito", "to_base_units"))
                                                or norm(c.func).split(".")[-1] == "convert_field") for c in ast.walk(e))
    n_sites = 0
    for f in repo.all_functions():
        if not (f.module.name.startswith("tdgl.solution") or f.module.name == "tdgl.em"):
            continue
        fn = f.node
        if "units" not in [a_.arg for a_ in fn.args.args + fn.args.kwonlyargs]:
            continue
        cfg = pm = None
        for n in own_nodes(fn):
            if not (isinstance(n, ast.Attribute) and n.attr in ("magnitude", "m") and isinstance(n.ctx, ast.Load)):
                continue
            if cfg is None:
                cfg, pm = build_cfg(fn), parent_map(fn)
            st = n
            while not isinstance(st, ast.stmt):
                st = pm[id(st)][0]

            def unconverted(e, at, trail=()):
                """None: converted on every path; "?": bound by a loop / with / parameter (not judged); else the offending source"""
                if conv(e) or norm(e) in STRIP_OK:
                    return None
                if isinstance(e, ast.Attribute) and e.attr == "coherence_length":
                    # `<d>.coherence_length` with <d> a local bound to the solution's device (whatever the local is called)
                    try:
                        from ..dataflow import expanded_text as _et
                        if f"{_et(fn, e.value)}.coherence_length" in STRIP_OK:
                            return None
                    except Exception:
                        pass
                if isinstance(e, ast.Subscript):
                    return unconverted(e.value, at, trail)
                if isinstance(e, ast.IfExp):
                    return unconverted(e.body, at, trail) or unconverted(e.orelse, at, trail)
                if isinstance(e, ast.Name):
                    defs = reaching_defs(fn, e.id, at, cfg)
                    if not defs:
                        return "?"
                    worst = None
                    for s_, v in defs:
                        if v is None:
                            worst = worst or "?"
                            continue
                        if (id(s_), e.id) in trail:
                            continue
                        w = unconverted(v, s_, trail + ((id(s_), e.id),))
                        if w and w != "?":
                            return w
                        worst = worst or w
                    return worst
                return f"`{norm(e)[:60]}`"
            why = unconverted(n.value, st)
            if why == "?":
                continue
            n_sites += 1
            ctx.ob("R08.9", f"{f.qual}: `{norm(n)[:50]}` strips a value that was converted to explicit units", why is None,
                   detail={"unconverted_source": why}, where=f.fq, construct=f"unit stripping `{norm(n)[:50]}` in {f.qual}", loc=loc(f, n),
                   message=f"{f.qual}: `{norm(n)[:60]}` takes the bare numbers of {why}, which was never converted to the requested (or any explicit) units",
                   consequence="the numbers returned for an explicitly requested unit are in the unit system the device was stated in: the same "
                               "device and drive in um/uA and in nm/mA give results that differ by the ratio of the units")
    if n_sites < 12:
        raise AnalysisError(f"only {n_sites} unit-stripping sites found in the post-processing functions")
