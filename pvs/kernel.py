"""Summarises numba / cupy scalar loop kernels into closed forms.

A kernel is a nest of ``for v in prange/range(extent)`` loops whose bodies are
scalar assignments, accumulations ``acc += e`` and element stores
``out[i, k] = e``.  The summary of a kernel is, for every stored array,
``out[index] = term`` where an accumulator that was initialised to 0 and
updated inside an inner loop is the atom ``sum[v<extent](summand)``.  Loop
variables are renamed by nesting order (v0, v1, ...) so two kernels with
different variable names compare equal.  Everything outside this fragment is
an analysis error.
"""
from __future__ import annotations

import ast
from fractions import Fraction as Fr
from typing import Dict, List, Optional, Tuple

from .alg import GQ, AlgError, AtomTable, Rat
from .src import AnalysisError, norm


class KernelError(AnalysisError):
    pass


class LoopInfo:
    def __init__(self, var, canon, extent, parallel, node):
        self.var = var
        self.canon = canon
        self.extent = extent
        self.parallel = parallel
        self.node = node


class Store:
    def __init__(self, array, index, value, loops, node):
        self.array = array
        self.index = index          # tuple of index texts (canonical loop vars)
        self.value = value          # Rat
        self.loops = loops          # enclosing LoopInfo list
        self.node = node


class Acc:
    """Scalar accumulator state inside loops."""

    def __init__(self, init: Rat, depth: int, node):
        self.init = init
        self.depth = depth          # loop depth at which it was initialised
        self.node = node
        self.terms: List[Tuple[LoopInfo, Rat]] = []


class Summary:
    def __init__(self):
        self.stores: List[Store] = []
        self.loops: List[LoopInfo] = []
        self.problems: List[str] = []
        self.allocs: Dict[str, Tuple[str, List[str], ast.AST]] = {}   # name -> (func, shape texts, node)
        self.returns: List[str] = []
        self.acc_inits: List[Tuple[str, int, int]] = []  # (name, init depth, first-accumulate depth)


def _loop_call(it: ast.expr) -> Optional[Tuple[bool, ast.expr]]:
    """(parallel?, extent expr) for range/prange/cupyx.jit.range calls."""
    if isinstance(it, ast.Call) and len(it.args) == 1:
        f = it.func
        name = f.attr if isinstance(f, ast.Attribute) else getattr(f, "id", "")
        if name == "prange":
            return True, it.args[0]
        if name == "range":
            return False, it.args[0]
    return None


class KernelEval:
    def __init__(self, T: AtomTable, fn: ast.FunctionDef, consts: Optional[Dict[str, Rat]] = None):
        self.T = T
        self.fn = fn
        self.env: Dict[str, object] = dict(consts or {})
        self.alias: Dict[str, str] = {}      # Jx -> current_densities[:,0]
        self.loops: List[LoopInfo] = []
        self.ren: Dict[str, str] = {}
        self.summary = Summary()
        self.accs: Dict[str, Acc] = {}
        self.grid_vars: List[str] = []
        self.extents: Dict[str, str] = {}    # num_edges -> edge_centers.shape[0]
        self.array_names: Dict[str, str] = {}    # parameter of a helper -> array name in the kernel that called it

    # -- expressions ------------------------------------------------------------
    def idx_text(self, e: ast.expr) -> str:
        if isinstance(e, ast.Name):
            return self.ren.get(e.id, e.id)
        if isinstance(e, ast.Constant):
            return repr(e.value)
        if isinstance(e, ast.Slice) and e.lower is None and e.upper is None:
            return ":"
        raise KernelError(f"index expression {norm(e)} outside the kernel fragment")

    def elem(self, e: ast.Subscript) -> Rat:
        base = e.value
        idxs = e.slice.elts if isinstance(e.slice, ast.Tuple) else [e.slice]
        if isinstance(base, ast.Subscript):        # a[i][k] not used
            raise KernelError(f"nested subscript {norm(e)}")
        if not isinstance(base, ast.Name):
            raise KernelError(f"subscript base {norm(base)}")
        name = base.id
        texts = [self.idx_text(i) for i in idxs]
        if name in self.alias:
            # alias like Jx = current_densities[:, 0]  -> Jx[k] == current_densities[k, 0]
            arr, pat = self.alias[name]
            if pat is None:              # the same array under the parameter name of a helper
                name = arr
            else:
                it = iter(texts)
                full = [next(it) if p == ":" else p for p in pat]
                name, texts = arr, full
        name = self.array_names.get(name, name)
        return self.T.real(f"{name}[{','.join(texts)}]")

    def ev(self, e: ast.expr) -> Rat:
        T = self.T
        if isinstance(e, ast.Constant):
            if isinstance(e.value, bool):
                raise KernelError("bool constant")
            if isinstance(e.value, int):
                return Rat.const(T, e.value)
            if isinstance(e.value, float):
                return Rat.const(T, Fr(repr(e.value)))
            raise KernelError(f"constant {e.value!r}")
        if isinstance(e, ast.Name):
            if e.id in self.accs:
                return self.acc_value(e.id)
            if e.id in self.env:
                v = self.env[e.id]
                if isinstance(v, Rat):
                    return v
            if e.id in self.ren:
                return T.real(self.ren[e.id])
            return T.real(e.id)       # free constant such as mu_0
        if isinstance(e, ast.Attribute):
            if e.attr == "pi":
                return T.real("pi", "pos")
            return T.real(norm(e))
        if isinstance(e, ast.Subscript):
            return self.elem(e)
        if isinstance(e, ast.UnaryOp) and isinstance(e.op, ast.USub):
            return -self.ev(e.operand)
        if isinstance(e, ast.BinOp):
            a = self.ev(e.left)
            if isinstance(e.op, ast.Pow):
                ex = self.const_exp(e.right)
                try:
                    return a ** ex
                except AlgError as er:
                    raise KernelError(f"power {norm(e)}: {er}")
            b = self.ev(e.right)
            try:
                if isinstance(e.op, ast.Add):
                    return a + b
                if isinstance(e.op, ast.Sub):
                    return a - b
                if isinstance(e.op, ast.Mult):
                    return a * b
                if isinstance(e.op, ast.Div):
                    return a / b
            except AlgError as er:
                raise KernelError(f"{norm(e)}: {er}")
            raise KernelError(f"operator in {norm(e)}")
        if isinstance(e, ast.Call):
            f = e.func
            name = f.attr if isinstance(f, ast.Attribute) else getattr(f, "id", "")
            if isinstance(f, ast.Name) and self.helper(name) is not None and not e.keywords:
                return self.call_helper(self.helper(name), e)
            if name == "sqrt" and len(e.args) == 1:
                try:
                    return T.sqrt_of(self.ev(e.args[0]))
                except AlgError as er:
                    raise KernelError(f"sqrt: {er}")
            raise KernelError(f"call {norm(e)} outside the kernel fragment")
        raise KernelError(f"expression {norm(e)} outside the kernel fragment")

    # -- compiled helpers of the same module (a kernel whose inner sum was moved into a second @njit function) -------------------
    def helper(self, name):
        tree = getattr(self.fn, "_module_tree", None) or getattr(self, "_tree", None)
        if tree is None:
            return None
        for st in tree.body:
            if isinstance(st, ast.FunctionDef) and st.name == name and st is not self.fn and any(
                    "jit" in norm(d) for d in st.decorator_list):
                return st
        return None

    def call_helper(self, h: ast.FunctionDef, e: ast.Call) -> Rat:
        params = [a.arg for a in h.args.args]
        if len(params) != len(e.args) or getattr(self, "_depth", 0) > 3:
            raise KernelError(f"call {norm(e)}: cannot bind the helper's parameters")
        sub = KernelEval(self.T, h, None)
        sub._tree = getattr(self.fn, "_module_tree", None) or getattr(self, "_tree", None)
        sub._depth = getattr(self, "_depth", 0) + 1
        sub.loops = list(self.loops)
        sub.all_loops = self.all_loops if hasattr(self, "all_loops") else []
        sub.summary = self.summary
        for p, a in zip(params, e.args):
            if isinstance(a, ast.Name) and a.id in self.ren:
                sub.ren[p] = self.ren[a.id]                       # a loop index of the caller
            elif isinstance(a, ast.Name) and a.id in self.alias:
                sub.alias[p] = self.alias[a.id]
            elif isinstance(a, ast.Name) and a.id not in self.env and a.id not in self.accs:
                if a.id != p:
                    sub.alias[p] = (self.array_names.get(a.id, a.id), None)     # an array parameter under another name
                sub.array_names[p] = self.array_names.get(a.id, a.id)
            else:
                sub.env[p] = self.ev(a)
        ret = None
        for st in h.body:
            if isinstance(st, ast.Return):
                if st.value is None:
                    raise KernelError(f"helper {h.name} returns nothing")
                ret = sub.ev(st.value)
                break
            sub.stmt(st)
        if ret is None:
            raise KernelError(f"helper {h.name} has no top-level return")
        return ret

    def const_exp(self, e: ast.expr):
        try:
            v = eval(compile(ast.Expression(e), "<exp>", "eval"), {"__builtins__": {}}, {})
        except Exception:
            raise KernelError(f"non-constant exponent {norm(e)}")
        return Fr(v).limit_denominator(1000)

    def acc_value(self, name) -> Rat:
        a = self.accs[name]
        tot = a.init
        for lp, summand in a.terms:
            tot = tot + self.T.app(f"sum[{lp.canon}<{lp.extent}]", [summand])
        return tot

    # -- statements ------------------------------------------------------------------
    def run(self) -> Summary:
        self.block(self.fn.body)
        self.summary.loops = self.all_loops
        return self.summary

    all_loops: List[LoopInfo]

    def block(self, stmts):
        if not hasattr(self, "all_loops"):
            self.all_loops = []
        for s in stmts:
            self.stmt(s)

    def stmt(self, s):
        if isinstance(s, ast.Expr) and isinstance(s.value, ast.Constant):
            return
        if isinstance(s, ast.Assert):
            return
        if isinstance(s, ast.Return):
            self.summary.returns.append(norm(s.value) if s.value else "None")
            return
        if isinstance(s, ast.For):
            lc = _loop_call(s.iter)
            if lc is None or not isinstance(s.target, ast.Name):
                raise KernelError(f"loop `for {norm(s.target)} in {norm(s.iter)}` outside the kernel fragment")
            par, ext = lc
            canon = f"v{max(len(self.loops), len(self.grid_vars))}"
            li = LoopInfo(s.target.id, canon, self.extent_text(ext), par, s)
            self.ren[s.target.id] = canon
            self.loops.append(li)
            self.all_loops.append(li)
            # accumulators initialised outside this loop and updated inside are summed over it
            before = {k: len(a.terms) for k, a in self.accs.items()}
            self.block(s.body)
            self.loops.pop()
            del self.ren[s.target.id]
            return
        if isinstance(s, ast.If):
            # cupy bounds guard: `if i < a.shape[0] and k < b.shape[1]:` -> extents of the grid variables
            if self.grid_vars and not s.orelse:
                conds = s.test.values if isinstance(s.test, ast.BoolOp) and isinstance(s.test.op, ast.And) else [s.test]
                got = {}
                for c in conds:
                    if isinstance(c, ast.Compare) and isinstance(c.ops[0], ast.Lt) and isinstance(c.left, ast.Name):
                        got[c.left.id] = self.extent_text(c.comparators[0])
                bound = {l.var for l in self.loops}
                if got and len(got) == len(conds) and set(got) <= set(self.grid_vars) - bound:
                    # one guard for all grid variables or nested guards, one per variable
                    pushed = [gv for gv in self.grid_vars if gv in got]
                    for gv in pushed:
                        li = LoopInfo(gv, self.ren[gv], got[gv], True, s)
                        self.loops.append(li)
                        self.all_loops.append(li)
                    self.block(s.body)
                    for _ in pushed:
                        self.loops.pop()
                    return
            raise KernelError(f"branch `if {norm(s.test)}` inside a kernel")
        if isinstance(s, ast.Assign) and len(s.targets) == 1:
            t = s.targets[0]
            # i, k = cupyx.jit.grid(2)
            if isinstance(t, ast.Tuple) and isinstance(s.value, ast.Call) and isinstance(s.value.func, ast.Attribute) \
                    and s.value.func.attr == "grid":
                for j, el in enumerate(t.elts):
                    self.grid_vars.append(el.id)
                    self.ren[el.id] = f"v{j}"
                return
            if isinstance(t, ast.Name):
                v = s.value
                # array alias / allocation at top level
                if not self.loops:
                    # num_edges = edge_centers.shape[0] / n = len(x): a name for an extent
                    if (isinstance(v, ast.Subscript) and isinstance(v.value, ast.Attribute) and v.value.attr == "shape") or \
                            (isinstance(v, ast.Call) and getattr(v.func, "id", "") == "len" and len(v.args) == 1):
                        self.extents[t.id] = self.extent_text(v)
                        return
                    if isinstance(v, ast.Subscript) and isinstance(v.value, ast.Name):
                        idxs = v.slice.elts if isinstance(v.slice, ast.Tuple) else [v.slice]
                        self.alias[t.id] = (v.value.id, [self.idx_text(i) for i in idxs])
                        return
                    if isinstance(v, ast.Call) and isinstance(v.func, ast.Attribute) and v.func.attr in ("empty", "zeros", "ones"):
                        shp = v.args[0]
                        dims = shp.elts if isinstance(shp, ast.Tuple) else [shp]
                        self.summary.allocs[t.id] = (v.func.attr, [self.extent_text(d) for d in dims], s)
                        return
                val = self.ev(v)
                depth = len(self.loops)
                self.accs.pop(t.id, None)
                self.env[t.id] = val
                if val.is_const():
                    self.accs[t.id] = Acc(val, depth, s)
                    self.env.pop(t.id, None)
                return
            if isinstance(t, ast.Subscript) and isinstance(t.value, ast.Name):
                idxs = t.slice.elts if isinstance(t.slice, ast.Tuple) else [t.slice]
                unguarded = [gv for gv in self.grid_vars if gv not in {l.var for l in self.loops}]
                if unguarded:
                    self.summary.problems.append(f"L{s.lineno}: `{norm(s)[:60]}` is outside the bounds guard of the grid variable(s) {unguarded}")
                self.summary.stores.append(Store(t.value.id, tuple(self.idx_text(i) for i in idxs), self.ev(s.value),
                                                 list(self.loops), s))
                return
        if isinstance(s, ast.AugAssign) and isinstance(s.op, ast.Add) and isinstance(s.target, ast.Name):
            nm = s.target.id
            if nm not in self.accs:
                raise KernelError(f"`{norm(s)}`: accumulation into a variable with no constant initialisation")
            a = self.accs[nm]
            if not self.loops:
                raise KernelError(f"`{norm(s)}` outside any loop")
            inner = self.loops[-1]
            if len(self.loops) - a.depth != 1:
                self.summary.problems.append(
                    f"L{s.lineno}: `{norm(s)}` accumulates across {len(self.loops) - a.depth} loop levels "
                    f"(initialised at depth {a.depth}, updated at depth {len(self.loops)})")
            self.summary.acc_inits.append((nm, a.depth, len(self.loops)))
            a.terms.append((inner, self.ev(s.value)))
            return
        if isinstance(s, ast.AugAssign) and isinstance(s.target, ast.Subscript):
            self.summary.problems.append(f"L{s.lineno}: `{norm(s)}` read-modify-write of an array element")
            return
        raise KernelError(f"statement `{norm(s)[:80]}` outside the kernel fragment")

    def extent_text(self, e: ast.expr) -> str:
        # len(x) == x.shape[0]
        if isinstance(e, ast.Call) and getattr(e.func, "id", "") == "len" and len(e.args) == 1:
            a0 = norm(e.args[0])
            return f"{self.array_names.get(a0, a0)}.shape[0]"
        if isinstance(e, ast.Name) and e.id in self.extents:
            return self.extents[e.id]
        t = norm(e)
        head = t.split(".")[0]
        if head in self.array_names:                 # inside a helper: the array under the caller's name
            t = self.array_names[head] + t[len(head):]
        return t


def summarise(T: AtomTable, fn: ast.FunctionDef) -> Summary:
    return KernelEval(T, fn).run()


def output_coverage(sm: Summary, fn: ast.FunctionDef, ps: List[str]):
    """How the kernel (J, areas, sites, edge_centers, out) covers its output: "loop" - one store out[v0, v1] with v1 over J.shape[1],
    which the kernel itself asserts to be 2; "unrolled" - one store per column, out[v0, 0] and out[v0, 1], under the same assertion.
    None when the stores are neither."""
    asserted = any(norm(a.test) in (f"{ps[0]}.shape[1] == 2", f"2 == {ps[0]}.shape[1]") for a in fn.body if isinstance(a, ast.Assert))
    if any(st.array != ps[4] for st in sm.stores) or not sm.stores:
        return None
    if len(sm.stores) == 1 and sm.stores[0].index == ("v0", "v1"):
        ext = {l.canon: l.extent for l in sm.stores[0].loops}
        if ext.get("v0") == f"{ps[3]}.shape[0]" and ext.get("v1") == f"{ps[0]}.shape[1]":
            return "loop"
        return None
    if len(sm.stores) == 2 and sorted(st.index for st in sm.stores) == [("v0", "0"), ("v0", "1")] and asserted:
        if all({l.canon: l.extent for l in st.loops} == {"v0": f"{ps[3]}.shape[0]"} for st in sm.stores):
            return "unrolled"
    return None
