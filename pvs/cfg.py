"""Statement-level control-flow graph for the statement kinds py-tdgl uses.

Nodes are statements (or the test of an ``if``/``while``, the head of a ``for``,
the enter/exit of a ``with``, the entry of an ``except`` handler) plus three
synthetic nodes: ENTRY, EXIT (normal return) and RAISE (exception leaves the
function).  Exception edges leave every statement that *may raise* (default:
contains a call, a raise or an assert) towards the handlers of the enclosing
``try`` statements; a handler that names ``Exception``/``BaseException`` or is
bare stops the propagation of ordinary exceptions, otherwise the edge also
continues outwards.  ``with`` exits and ``finally`` bodies are duplicated on
every way out (normal, exception, return, break, continue).
"""
from __future__ import annotations

import ast
from collections import deque
from typing import Callable, Dict, Iterable, List, Optional, Set, Tuple


class Node:
    __slots__ = ("id", "kind", "ast", "label", "extra")

    def __init__(self, id, kind, ast_node=None, label="", extra=None):
        self.id = id
        self.kind = kind
        self.ast = ast_node
        self.label = label
        self.extra = extra

    @property
    def line(self):
        return getattr(self.ast, "lineno", 0)

    def text(self):
        if self.label:
            return self.label
        if self.ast is None:
            return self.kind
        if self.kind in ("if", "while"):
            return f"{self.kind} {ast.unparse(self.ast.test)}"
        if self.kind == "for":
            return f"for {ast.unparse(self.ast.target)} in {ast.unparse(self.ast.iter)}"
        if self.kind == "with_enter":
            return "with " + ", ".join(ast.unparse(i) for i in self.ast.items)
        if self.kind in ("with_exit", "with_exit_exc"):
            return f"{self.kind}(" + ", ".join(ast.unparse(i.context_expr) for i in self.ast.items) + ")"
        if self.kind == "except":
            return "except " + (ast.unparse(self.ast.type) if self.ast.type else "")
        s = ast.unparse(self.ast)
        return s.split("\n")[0][:160]

    def __repr__(self):
        return f"<{self.id}:{self.kind}:{self.text()[:60]}>"


def default_may_raise(stmt: ast.AST) -> bool:
    if isinstance(stmt, (ast.Raise, ast.Assert)):
        return True
    for n in ast.walk(stmt):
        if isinstance(n, (ast.Call, ast.Subscript)):
            return True
    return False


CATCH_ALL = {"Exception", "BaseException"}


class CFG:
    def __init__(self):
        self.nodes: List[Node] = []
        self.succ: Dict[int, List[Tuple[int, str]]] = {}
        self.pred: Dict[int, List[Tuple[int, str]]] = {}
        self.entry = self._new("entry").id
        self.exit = self._new("exit").id
        self.raise_exit = self._new("raise").id
        self.stmt_node: Dict[int, int] = {}   # id(ast stmt) -> first node id

    def _new(self, kind, ast_node=None, label="", extra=None) -> Node:
        n = Node(len(self.nodes), kind, ast_node, label, extra)
        self.nodes.append(n)
        self.succ[n.id] = []
        self.pred[n.id] = []
        return n

    def edge(self, a: int, b: int, label="next"):
        if (b, label) not in self.succ[a]:
            self.succ[a].append((b, label))
            self.pred[b].append((a, label))

    # -- queries ---------------------------------------------------------------------
    def node_of(self, stmt: ast.AST) -> Node:
        return self.nodes[self.stmt_node[id(stmt)]]

    def nodes_of(self, stmt: ast.AST) -> List[Node]:
        return [n for n in self.nodes if n.ast is stmt]

    def reachable(self, src: int, skip: Iterable[int] = (), skip_edges: Iterable[str] = (),
                  only_edges: Optional[Set[str]] = None) -> Set[int]:
        skip = set(skip)
        skip_edges = set(skip_edges)
        seen = {src}
        dq = deque([src])
        while dq:
            u = dq.popleft()
            for v, lab in self.succ[u]:
                if lab in skip_edges or v in skip or v in seen:
                    continue
                if only_edges is not None and lab not in only_edges:
                    continue
                seen.add(v)
                dq.append(v)
        return seen

    def path(self, src: int, dst: int, skip: Iterable[int] = (), skip_edges: Iterable[str] = ()) -> Optional[List[Tuple[int, str]]]:
        skip = set(skip)
        skip_edges = set(skip_edges)
        prev: Dict[int, Tuple[int, str]] = {}
        dq = deque([src])
        seen = {src}
        while dq:
            u = dq.popleft()
            if u == dst:
                out = []
                while u != src:
                    p, lab = prev[u]
                    out.append((u, lab))
                    u = p
                out.append((src, "start"))
                return out[::-1]
            for v, lab in self.succ[u]:
                if lab in skip_edges or v in skip or v in seen:
                    continue
                seen.add(v)
                prev[v] = (u, lab)
                dq.append(v)
        return None

    def must_pass(self, src: int, dst: int, through: Iterable[int], skip_edges: Iterable[str] = ()) -> Optional[List[Tuple[int, str]]]:
        """None if every path src->dst passes through one of `through`; else a witness path."""
        return self.path(src, dst, skip=through, skip_edges=skip_edges)

    def dominators(self, skip_edges: Iterable[str] = ()) -> Dict[int, Set[int]]:
        skip_edges = set(skip_edges)
        reach = self.reachable(self.entry, skip_edges=skip_edges)
        allr = set(reach)
        dom = {n: set(allr) for n in reach}
        dom[self.entry] = {self.entry}
        changed = True
        order = sorted(reach)
        while changed:
            changed = False
            for n in order:
                if n == self.entry:
                    continue
                ps = [p for p, lab in self.pred[n] if p in reach and lab not in skip_edges]
                if not ps:
                    continue
                new = set.intersection(*(dom[p] for p in ps)) | {n}
                if new != dom[n]:
                    dom[n] = new
                    changed = True
        return dom

    def describe_path(self, path: List[Tuple[int, str]]) -> List[str]:
        out = []
        for nid, lab in path:
            n = self.nodes[nid]
            out.append(f"--{lab}--> L{n.line} {n.text()}" if lab != "start" else f"L{n.line} {n.text()}")
        return out


class _Ctx:
    """Enclosing construct on the unwinding stack."""

    def __init__(self, kind, node=None, **kw):
        self.kind = kind  # loop | try | with | finally
        self.node = node
        self.__dict__.update(kw)


class Builder:
    def __init__(self, fn: ast.AST, may_raise: Callable[[ast.AST], bool] = default_may_raise,
                 infinite_iters: Optional[Set[str]] = None):
        self.fn = fn
        self.may_raise = may_raise
        self.g = CFG()
        self.stack: List[_Ctx] = []
        self.infinite_names: Set[str] = set(infinite_iters or ())
        for n in ast.walk(fn):
            if isinstance(n, ast.Assign) and len(n.targets) == 1 and isinstance(n.targets[0], ast.Name) \
                    and _is_count_call(n.value):
                self.infinite_names.add(n.targets[0].id)

    def build(self) -> CFG:
        g = self.g
        outs = self.block(self.fn.body, [(g.entry, "next")])
        for o, lab in outs:
            g.edge(o, g.exit, lab)
        return g

    # each block builder takes a list of dangling (node, label) and returns the new dangling list
    def block(self, stmts, ins):
        for s in stmts:
            ins = self.stmt(s, ins)
        return ins

    def _link(self, ins, nid):
        for o, lab in ins:
            self.g.edge(o, nid, lab)

    def stmt(self, s, ins):
        g = self.g
        if isinstance(s, ast.If):
            n = g._new("if", s)
            g.stmt_node[id(s)] = n.id
            self._link(ins, n.id)
            self._exc(n, s.test)
            t = self.block(s.body, [(n.id, "true")])
            f = self.block(s.orelse, [(n.id, "false")])
            return t + f
        if isinstance(s, ast.While):
            n = g._new("while", s)
            g.stmt_node[id(s)] = n.id
            self._link(ins, n.id)
            self._exc(n, s.test)
            ctx = _Ctx("loop", n, breaks=[], head=n.id)
            self.stack.append(ctx)
            body_out = self.block(s.body, [(n.id, "true")])
            self.stack.pop()
            for o, lab in body_out:
                g.edge(o, n.id, "loop" if lab == "next" else lab)
            outs = list(ctx.breaks)
            if not _is_true(s.test):
                outs += self.block(s.orelse, [(n.id, "false")])
            return outs
        if isinstance(s, ast.For):
            n = g._new("for", s)
            g.stmt_node[id(s)] = n.id
            self._link(ins, n.id)
            self._exc(n, s.iter)
            ctx = _Ctx("loop", n, breaks=[], head=n.id)
            self.stack.append(ctx)
            body_out = self.block(s.body, [(n.id, "iter")])
            self.stack.pop()
            for o, lab in body_out:
                g.edge(o, n.id, "loop" if lab == "next" else lab)
            outs = list(ctx.breaks)
            infinite = _is_count_call(s.iter) or (isinstance(s.iter, ast.Name) and s.iter.id in self.infinite_names)
            if not infinite:
                outs += self.block(s.orelse, [(n.id, "exhausted")])
            return outs
        if isinstance(s, ast.Try):
            return self.try_(s, ins)
        if isinstance(s, ast.With):
            return self.with_(s, ins)
        if isinstance(s, ast.Return):
            n = g._new("return", s)
            g.stmt_node[id(s)] = n.id
            self._link(ins, n.id)
            if s.value is not None:
                self._exc(n, s.value)
            outs = self._unwind([(n.id, "return")], stop=None)
            for o, lab in outs:
                g.edge(o, g.exit, "return")
            return []
        if isinstance(s, ast.Raise):
            n = g._new("raise_stmt", s)
            g.stmt_node[id(s)] = n.id
            self._link(ins, n.id)
            self._raise_from(n.id, s)
            return []
        if isinstance(s, ast.Break):
            n = g._new("break", s)
            g.stmt_node[id(s)] = n.id
            self._link(ins, n.id)
            loop = self._innermost_loop()
            outs = self._unwind([(n.id, "break")], stop=loop)
            loop.breaks.extend((o, "break") for o, _ in outs)
            return []
        if isinstance(s, ast.Continue):
            n = g._new("continue", s)
            g.stmt_node[id(s)] = n.id
            self._link(ins, n.id)
            loop = self._innermost_loop()
            outs = self._unwind([(n.id, "continue")], stop=loop)
            for o, _ in outs:
                g.edge(o, loop.head, "continue")
            return []
        # simple statement (incl. nested def / class / import)
        kind = "def" if isinstance(s, (ast.FunctionDef, ast.AsyncFunctionDef, ast.ClassDef)) else "stmt"
        n = g._new(kind, s)
        g.stmt_node[id(s)] = n.id
        self._link(ins, n.id)
        if kind == "stmt":
            self._exc(n, s)
        return [(n.id, "next")]

    def _innermost_loop(self):
        for c in reversed(self.stack):
            if c.kind == "loop":
                return c
        raise ValueError("break/continue outside loop")

    def _unwind(self, ins, stop):
        """Run with-exits / finally bodies between here and `stop` (a ctx) for a non-local exit."""
        g = self.g
        saved = self.stack
        i = len(saved) - 1
        while i >= 0 and saved[i] is not stop:
            c = saved[i]
            if c.kind == "with":
                n = g._new("with_exit", c.node)
                self._link(ins, n.id)
                ins = [(n.id, ins[0][1] if ins else "next")]
            elif c.kind == "try" and c.node.finalbody and not c.in_finally:
                self.stack = saved[:i]
                lab = ins[0][1] if ins else "next"
                ins = self.block(c.node.finalbody, ins)
                ins = [(o, lab) for o, _ in ins]
                self.stack = saved
            i -= 1
        self.stack = saved
        return ins

    def _exc(self, n: Node, sub: ast.AST):
        if self.may_raise(sub):
            self._raise_from(n.id, None)

    def _raise_from(self, nid: int, raise_stmt: Optional[ast.Raise]):
        """Exception edges from node nid outwards through the unwinding stack."""
        g = self.g
        saved = self.stack
        cur = [(nid, "exc")]
        exc_name = None
        if raise_stmt is not None and raise_stmt.exc is not None:
            e = raise_stmt.exc
            if isinstance(e, ast.Call):
                e = e.func
            exc_name = e.id if isinstance(e, ast.Name) else (e.attr if isinstance(e, ast.Attribute) else None)
        i = len(saved) - 1
        while i >= 0:
            c = saved[i]
            if c.kind == "with":
                n = g._new("with_exit_exc", c.node)
                self._link(cur, n.id)
                cur = [(n.id, "exc")]
            elif c.kind == "try" and c.phase == "body":
                caught_all = False
                for h, hid in c.handlers:
                    names = _handler_names(h)
                    if exc_name is not None and names and exc_name not in names and not (names & CATCH_ALL):
                        # a raise of a named class that this handler does not name (subclassing is
                        # not modelled: keep the edge only for catch-all handlers)
                        continue
                    for o, _ in cur:
                        g.edge(o, hid, "exc")
                    if not names or (names & CATCH_ALL):
                        if not (names and names == {"Exception"} and exc_name in ("KeyboardInterrupt", "SystemExit")):
                            caught_all = True
                        break
                    if exc_name is not None and exc_name in names:
                        caught_all = True
                        break
                if caught_all:
                    self.stack = saved
                    return
                if c.node.finalbody:
                    self.stack = saved[:i]
                    outs = self.block(c.node.finalbody, cur)
                    cur = [(o, "exc") for o, _ in outs]
                    self.stack = saved
            elif c.kind == "try" and c.phase in ("handler", "else") and c.node.finalbody:
                self.stack = saved[:i]
                outs = self.block(c.node.finalbody, cur)
                cur = [(o, "exc") for o, _ in outs]
                self.stack = saved
            i -= 1
        self.stack = saved
        for o, _ in cur:
            g.edge(o, g.raise_exit, "exc")

    def try_(self, s: ast.Try, ins):
        g = self.g
        handlers = []
        for h in s.handlers:
            hn = g._new("except", h)
            g.stmt_node[id(h)] = hn.id
            handlers.append((h, hn.id))
        ctx = _Ctx("try", s, handlers=handlers, phase="body", in_finally=False)
        self.stack.append(ctx)
        anchor = g._new("try", s)
        g.stmt_node[id(s)] = anchor.id
        self._link(ins, anchor.id)
        body_out = self.block(s.body, [(anchor.id, "next")])
        ctx.phase = "else"
        else_out = self.block(s.orelse, body_out) if s.orelse else body_out
        outs = list(else_out)
        ctx.phase = "handler"
        for h, hid in handlers:
            outs += self.block(h.body, [(hid, "next")])
        self.stack.pop()
        if s.finalbody:
            outs = self.block(s.finalbody, outs)
        return outs

    def with_(self, s: ast.With, ins):
        g = self.g
        en = g._new("with_enter", s)
        g.stmt_node[id(s)] = en.id
        self._link(ins, en.id)
        self._raise_from(en.id, None)       # constructing / entering may raise: no exit is run
        ctx = _Ctx("with", s)
        self.stack.append(ctx)
        outs = self.block(s.body, [(en.id, "next")])
        self.stack.pop()
        ex = g._new("with_exit", s)
        self._link(outs, ex.id)
        return [(ex.id, "next")]


def _handler_names(h: ast.ExceptHandler) -> Set[str]:
    if h.type is None:
        return set()
    ts = h.type.elts if isinstance(h.type, ast.Tuple) else [h.type]
    out = set()
    for t in ts:
        if isinstance(t, ast.Name):
            out.add(t.id)
        elif isinstance(t, ast.Attribute):
            out.add(t.attr)
    return out


def _is_count_call(e) -> bool:
    return isinstance(e, ast.Call) and (
        (isinstance(e.func, ast.Attribute) and e.func.attr == "count"
         and isinstance(e.func.value, ast.Name) and e.func.value.id == "itertools")
        or (isinstance(e.func, ast.Name) and e.func.id == "count")) and not e.args


def _is_true(e) -> bool:
    return isinstance(e, ast.Constant) and e.value is True


def build_cfg(fn: ast.AST, may_raise=default_may_raise) -> CFG:
    return Builder(fn, may_raise).build()


def parent_map(fn: ast.AST) -> Dict[int, Tuple[ast.AST, str]]:
    """id(node) -> (parent node, field name) for every node under fn."""
    out: Dict[int, Tuple[ast.AST, str]] = {}
    for p in ast.walk(fn):
        for fld, val in ast.iter_fields(p):
            if isinstance(val, list):
                for v in val:
                    if isinstance(v, ast.AST):
                        out[id(v)] = (p, fld)
            elif isinstance(val, ast.AST):
                out[id(val)] = (p, fld)
    return out


_EXITS = (ast.Break, ast.Continue, ast.Return)      # `if bad: raise` validations are not reported as guards of what follows
_POSITIVE: Dict[int, ast.If] = {}


def _ends_in_exit(stmts) -> bool:
    return bool(stmts) and isinstance(stmts[-1], _EXITS)


def _positive(g: ast.If, br: str):
    """(if not X, true/false) is reported as (if X, false/true): one spelling per guard.  The synthetic node is cached so that
    two calls return the same object."""
    if isinstance(g, ast.If) and isinstance(g.test, ast.UnaryOp) and isinstance(g.test.op, ast.Not) and br in ("true", "false"):
        syn = _POSITIVE.get(id(g))
        if syn is None:
            syn = ast.If(test=g.test.operand, body=g.orelse, orelse=g.body)
            ast.copy_location(syn, g)
            syn._orig = g
            _POSITIVE[id(g)] = syn
            _KEEP.append(g)
        return syn, ("false" if br == "true" else "true")
    return g, br


_KEEP: list = []      # keeps the original nodes alive so that id()-keys stay unique


def guards_of(fn: ast.AST, target: ast.AST, pm=None, normal: bool = False) -> List[Tuple[ast.AST, str]]:
    """Conditions under which `target` executes, outermost first, as (stmt, branch) with branch in true/false (if),
    body/orelse (loops), body/handler/orelse/finally (try), body (with).

    With normal=True guard clauses count: a statement that follows `if c: <exit>` in the same block runs under `c` false, exactly like the
    else-branch of `if c: <exit> else: ...`; negated tests are reported positively (`if not x` true == `if x` false)."""
    pm = pm or parent_map(fn)
    out = []
    cur = target
    while id(cur) in pm:
        par, fld = pm[id(cur)]
        # dominating guard clauses among the earlier statements of the same block (collected innermost-first, like the rest)
        sibs = getattr(par, fld, None) if isinstance(fld, str) and normal else None
        if isinstance(sibs, list) and cur in sibs:
            level = []
            for prev in sibs[:sibs.index(cur)]:
                if isinstance(prev, ast.If):
                    if _ends_in_exit(prev.body) and not prev.orelse:
                        level.append(_positive(prev, "false"))
                    elif prev.orelse and _ends_in_exit(prev.orelse) and not _ends_in_exit(prev.body):
                        level.append(_positive(prev, "true"))
                    elif prev.orelse and _ends_in_exit(prev.body) and not _ends_in_exit(prev.orelse):
                        level.append(_positive(prev, "false"))
            out.extend(level[::-1])
        if par is fn:
            break
        if isinstance(par, ast.If) and fld in ("body", "orelse"):
            out.append(_positive(par, "true" if fld == "body" else "false") if normal else (par, "true" if fld == "body" else "false"))
        elif isinstance(par, (ast.For, ast.While)) and fld in ("body", "orelse"):
            out.append((par, fld))
        elif isinstance(par, ast.Try) and fld in ("body", "orelse", "finalbody"):
            out.append((par, {"finalbody": "finally"}.get(fld, fld)))
        elif isinstance(par, ast.ExceptHandler) and fld == "body":
            out.append((par, "handler"))
        elif isinstance(par, ast.With) and fld == "body":
            out.append((par, "body"))
        elif isinstance(par, (ast.FunctionDef, ast.Lambda, ast.AsyncFunctionDef)) and par is not fn:
            out.append((par, "def"))
        cur = par
    return out[::-1]
