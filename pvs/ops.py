"""Block-algebra predicates over SparseM values produced by the interpreter."""
from __future__ import annotations

from typing import Dict, List, Optional, Tuple

from .alg import Rat
from .interp import Block, Field, Idx, Interp, SparseM


def mat_diff(a: SparseM, b: SparseM) -> List[str]:
    """Differences between two block matrices modulo block order (duplicates summed)."""
    da, db = a.merged(), b.merged()
    out = []
    for k in sorted(set(da) | set(db), key=str):
        va, vb = da.get(k), db.get(k)
        if va is None:
            out.append(f"block {k}: missing on the left, right has {vb}")
        elif vb is None:
            out.append(f"block {k}: left has {va}, missing on the right")
        elif not (va == vb):
            out.append(f"block {k}: {va}  !=  {vb}")
    return out


def area_scaled(ip: Interp, m: SparseM, areas: Field) -> Dict[tuple, Rat]:
    """diag(a) @ M as merged blocks; keys (rowname, colname, mask)."""
    idx = {}
    for b in m.blocks:
        idx[b.row.name] = b.row
    out = {}
    for k, v in m.merged().items():
        a = ip.gather(areas, idx[k[0]])
        out[k] = a * v
    return out


def column_sums(scaled: Dict[tuple, Rat]) -> Dict[str, Rat]:
    out: Dict[str, Rat] = {}
    for (r, c, mk), v in scaled.items():
        out[c] = out[c] + v if c in out else v
    return out


def row_sums(m: SparseM) -> Dict[str, Rat]:
    out: Dict[str, Rat] = {}
    for (r, c, mk), v in m.merged().items():
        out[r] = out[r] + v if r in out else v
    return out


def hermitian_defects(scaled: Dict[tuple, Rat]) -> List[str]:
    out = []
    for (r, c, mk), v in scaled.items():
        if r == c:
            if not v.is_real():
                out.append(f"diagonal block ({r},{r}) is not real: {v}")
            continue
        w = scaled.get((c, r, mk))
        if w is None:
            out.append(f"block ({r},{c}) has no transposed partner ({c},{r})")
        elif not (w == v.conj()):
            out.append(f"block ({c},{r}) = {w} is not the conjugate of ({r},{c}) = {v}")
    return out


def has_atom_kind(ip: Interp, t: Rat, kind: str) -> bool:
    return any(ip.T.atoms[a].kind == kind for a in t.atoms())
