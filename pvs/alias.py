"""Flow-ordered may-alias analysis of one function body (arrays only, syntactic).

A *root* is a storage location that outlives the call or belongs to the caller: a parameter, or an attribute expression selected
by the ``root_expr`` callback (``self.buffer``, ``mesh.sites`` ...).  The analysis tracks which local names may be bound to (a view
of) a root, joining over branches and loops, and reports

  * writes  - statements that modify an aliased array in place (subscript store, augmented assignment, ``out=``, ndarray
              methods that write ``self``, ``np.copyto`` / ``ufunc.at`` ...);
  * returns - return statements whose value (or an element of a returned tuple / constructor call) may alias a root.

Fresh values (arithmetic results, calls that are not view constructors, ``.copy()``) never alias.
"""
from __future__ import annotations

import ast
from typing import Callable, Dict, List, Optional, Set, Tuple

VIEW_FUNCS = ("atleast_1d", "atleast_2d", "atleast_3d", "asarray", "asanyarray", "squeeze", "ravel", "reshape", "transpose", "view",
              "swapaxes", "broadcast_to", "expand_dims", "diagonal")
VIEW_ATTRS = ("T", "magnitude", "real", "imag", "m", "flat")
INPLACE_METHODS = ("fill", "sort", "resize", "itemset", "put", "partition", "setfield", "byteswap", "setflags")
INPLACE_FUNCS = ("copyto", "put", "place", "putmask", "fill_diagonal", "put_along_axis")
HANDLE_WORDS = ("h5", "group", "file", "path")


class Result:
    def __init__(self):
        self.writes: List[Tuple[ast.AST, str, str]] = []      # (stmt/call node, root label, description)
        self.returns: List[Tuple[ast.Return, str, str]] = []   # (return stmt, root label, returned expression text)


def analyse(fn: ast.FunctionDef, roots_params: bool = True, root_expr: Optional[Callable[[ast.expr], Optional[str]]] = None,
            skip_params: Tuple[str, ...] = ("self", "cls"), through_attrs: Optional[Set[str]] = None) -> Result:
    """through_attrs: attribute names that hold arrays or sub-objects (Solution.tdgl_data, TDGLData.mu ...): `p.a.b` then shares
    storage with what the caller owns through parameter p."""
    through_attrs = through_attrs or set()
    res = Result()
    seen = set()
    alias: Dict[str, Set[str]] = {}
    if roots_params:
        a = fn.args
        for p in a.posonlyargs + a.args + a.kwonlyargs:
            if p.arg in skip_params or any(w in p.arg for w in HANDLE_WORDS):
                continue          # HDF5 handles are written on purpose
            alias[p.arg] = {p.arg}

    def roots(e, env) -> Set[str]:
        """Root labels the value of expression e may alias."""
        if e is None:
            return set()
        if root_expr is not None:
            r = root_expr(e)
            if r:
                return {r}
        if isinstance(e, ast.Name):
            return set(env.get(e.id, ()))
        if isinstance(e, ast.Subscript):
            return roots(e.value, env)
        if isinstance(e, ast.Starred):
            return roots(e.value, env)
        if isinstance(e, ast.Attribute):
            return roots(e.value, env) if (e.attr in VIEW_ATTRS or e.attr in through_attrs) else set()
        if isinstance(e, (ast.List, ast.Tuple)):
            out = set()
            for x in e.elts:
                out |= roots(x, env)
            return out
        if isinstance(e, ast.IfExp):
            return roots(e.body, env) | roots(e.orelse, env)
        if isinstance(e, ast.BoolOp):
            out = set()
            for x in e.values:
                out |= roots(x, env)
            return out
        if isinstance(e, ast.NamedExpr):
            return roots(e.value, env)
        if isinstance(e, ast.Call):
            f = e.func
            nm = f.attr if isinstance(f, ast.Attribute) else getattr(f, "id", "")
            if nm in VIEW_FUNCS:
                out = set()
                if isinstance(f, ast.Attribute):
                    out |= roots(f.value, env)
                for x in e.args:
                    out |= roots(x, env)
                return out
        return set()

    def bind(t, v, env, vroots=None):
        if isinstance(t, ast.Name):
            r = roots(v, env) if vroots is None else vroots
            if r:
                env[t.id] = set(r)
            else:
                env.pop(t.id, None)
        elif isinstance(t, ast.Starred):
            bind(t.value, v, env, vroots)
        elif isinstance(t, (ast.Tuple, ast.List)):
            if isinstance(v, (ast.Tuple, ast.List)) and len(v.elts) == len(t.elts) and vroots is None:
                for tt, vv in zip(t.elts, v.elts):
                    bind(tt, vv, env)
            else:
                r = roots(v, env) if vroots is None else vroots
                for tt in t.elts:
                    bind(tt, None, env, r)

    def record_write(node, r: Set[str], what):
        for lab in sorted(r):
            k = (id(node), lab)
            if k not in seen:
                seen.add(k)
                res.writes.append((node, lab, what))

    def scan_calls(stmt, env):
        for c in ast.walk(stmt):
            if isinstance(c, (ast.FunctionDef, ast.Lambda)):
                continue
            if not isinstance(c, ast.Call):
                continue
            for k in c.keywords:
                if k.arg == "out":
                    record_write(c, roots(k.value, env), f"out={ast.unparse(k.value)}")
            f = c.func
            if isinstance(f, ast.Attribute):
                if f.attr in INPLACE_METHODS:
                    record_write(c, roots(f.value, env), f".{f.attr}()")
                if f.attr in INPLACE_FUNCS and c.args:
                    record_write(c, roots(c.args[0], env), f"{f.attr}(...)")
                if f.attr == "at" and c.args and isinstance(f.value, ast.Attribute):      # np.add.at(a, idx, v)
                    record_write(c, roots(c.args[0], env), f"{ast.unparse(f)}(...)")

    def join(envs):
        out: Dict[str, Set[str]] = {}
        for e in envs:
            for k, v in e.items():
                out.setdefault(k, set()).update(v)
        return out

    def walk(stmts, env):
        for s_ in stmts:
            if isinstance(s_, (ast.FunctionDef, ast.AsyncFunctionDef, ast.ClassDef)):
                continue
            if isinstance(s_, ast.Assign):
                scan_calls(s_.value, env)
                for t in s_.targets:
                    if isinstance(t, ast.Subscript):
                        record_write(s_, roots(t.value, env), f"{ast.unparse(t)} = ...")
                # a = self.buf = fresh(): the name shares the object stored in the root
                shared = set()
                if root_expr is not None:
                    for t in s_.targets:
                        r = root_expr(t)
                        if r:
                            shared.add(r)
                for t in s_.targets:
                    if shared and isinstance(t, ast.Name):
                        env[t.id] = set(shared) | roots(s_.value, env)
                    else:
                        bind(t, s_.value, env)
            elif isinstance(s_, ast.AnnAssign):
                if s_.value is not None:
                    scan_calls(s_.value, env)
                    if isinstance(s_.target, ast.Subscript):
                        record_write(s_, roots(s_.target.value, env), f"{ast.unparse(s_.target)} = ...")
                    bind(s_.target, s_.value, env)
            elif isinstance(s_, ast.AugAssign):
                scan_calls(s_.value, env)
                tg = s_.target
                base = tg.value if isinstance(tg, ast.Subscript) else tg
                record_write(s_, roots(base, env), f"{ast.unparse(tg)} {type(s_.op).__name__}= ...")
            elif isinstance(s_, ast.Return):
                if s_.value is not None:
                    scan_calls(s_.value, env)
                    vals = [s_.value]
                    if isinstance(s_.value, ast.Call):        # SolverResult(dt, (psi, ...), ...): look into the arguments
                        f = s_.value.func
                        nm = f.attr if isinstance(f, ast.Attribute) else getattr(f, "id", "")
                        if nm not in VIEW_FUNCS and nm[:1].isupper():
                            vals = list(s_.value.args) + [k.value for k in s_.value.keywords]
                    for v in vals:
                        for lab in sorted(roots(v, env)):
                            res.returns.append((s_, lab, ast.unparse(v)))
            elif isinstance(s_, ast.If):
                scan_calls(s_.test, env)
                e1, e2 = dict((k, set(v)) for k, v in env.items()), dict((k, set(v)) for k, v in env.items())
                walk(s_.body, e1)
                walk(s_.orelse, e2)
                new = join([e1, e2])
                env.clear()
                env.update(new)
            elif isinstance(s_, (ast.For, ast.AsyncFor, ast.While)):
                if isinstance(s_, ast.While):
                    scan_calls(s_.test, env)
                else:
                    scan_calls(s_.iter, env)
                for _ in range(2):           # two rounds reach the fixpoint of a may-alias set over names bound in the body
                    e1 = dict((k, set(v)) for k, v in env.items())
                    if not isinstance(s_, ast.While):
                        bind(s_.target, None, e1, roots(s_.iter, e1))
                    walk(s_.body, e1)
                    new = join([env, e1])
                    env.clear()
                    env.update(new)
                walk(s_.orelse, env)
            elif isinstance(s_, ast.Try):
                e0 = dict((k, set(v)) for k, v in env.items())
                walk(s_.body, env)
                envs = [env]
                for h in s_.handlers:
                    eh = join([e0, env])
                    walk(h.body, eh)
                    envs.append(eh)
                new = join(envs)
                env.clear()
                env.update(new)
                walk(s_.orelse, env)
                walk(s_.finalbody, env)
            elif isinstance(s_, (ast.With, ast.AsyncWith)):
                for it in s_.items:
                    scan_calls(it.context_expr, env)
                    if it.optional_vars is not None:
                        bind(it.optional_vars, None, env, set())
                walk(s_.body, env)
            elif isinstance(s_, ast.Match):
                envs = []
                for c in s_.cases:
                    e1 = dict((k, set(v)) for k, v in env.items())
                    walk(c.body, e1)
                    envs.append(e1)
                new = join(envs + [env])
                env.clear()
                env.update(new)
            else:
                scan_calls(s_, env)
    walk(fn.body, alias)
    return res
