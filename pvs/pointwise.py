"""Pointwise boolean evaluation of a membership function (truth tables instead of text patterns).

A function such as ``Device.contains_points`` combines boolean arrays (one entry per query point) with ``&``, ``|``, ``~``,
reductions, index selections (``np.where(mask)[0]``) and masked stores.  For ONE query point and a fixed truth assignment
("the point is in the film", "in hole 1", ...) every such array is a single boolean, so the function can be evaluated exactly
for all 2^(n+1) assignments and compared with the specification.  The values only flow through boolean operations: the finite
table decides the function for every point set.
"""
from __future__ import annotations

import ast
from typing import Any, Dict, List, Optional


class NotPointwise(Exception):
    pass


class PB:
    """Boolean array over the points of a selection; `val` is the entry of the tracked point (None if it is not selected)."""

    def __init__(self, val: Optional[bool]):
        self.val = val


class Sel:
    """Index array selecting points: `has` tells whether the tracked point is selected."""

    def __init__(self, has: bool):
        self.has = has


class Pts:
    """The array of query points (restricted to a selection): `has` tells whether the tracked point is in it."""

    def __init__(self, has: bool = True):
        self.has = has


class Region:
    """An object with a contains_points method: the film or one of the holes."""

    def __init__(self, name: str, inside: bool):
        self.name, self.inside = name, inside


class _Return(Exception):
    def __init__(self, v):
        self.v = v


class Evaluator:
    def __init__(self, film: Region, holes: List[Region], params: Dict[str, Any]):
        self.film, self.holes = film, holes
        self.env: Dict[str, Any] = dict(params)
        self.radius_uses: List[tuple] = []          # (region kind, sign of the radius argument)

    # -- expressions ---------------------------------------------------------------------------------------------------
    def ev(self, e):
        if isinstance(e, ast.Name):
            if e.id not in self.env:
                raise NotPointwise(f"name {e.id}")
            return self.env[e.id]
        if isinstance(e, ast.Constant):
            return e.value
        if isinstance(e, ast.Attribute):
            t = ast.unparse(e)
            if t == "self.film":
                return self.film
            if t == "self.holes":
                return list(self.holes)
            raise NotPointwise(f"attribute {t}")
        if isinstance(e, ast.UnaryOp):
            v = self.ev(e.operand)
            if isinstance(e.op, ast.Invert) and isinstance(v, PB):
                return PB(None if v.val is None else not v.val)
            if isinstance(e.op, ast.Not) and isinstance(v, bool):
                return not v
            if isinstance(e.op, ast.USub) and isinstance(v, (int, float, str)):
                return ("neg", v)
            raise NotPointwise(f"unary {ast.unparse(e)}")
        if isinstance(e, ast.BinOp) and isinstance(e.op, (ast.BitAnd, ast.BitOr, ast.BitXor)):
            a, b = self.ev(e.left), self.ev(e.right)
            return self.combine(type(e.op), a, b)
        if isinstance(e, (ast.List, ast.Tuple)):
            return [self.ev(x) for x in e.elts]
        if isinstance(e, (ast.ListComp, ast.GeneratorExp)):
            if len(e.generators) != 1 or e.generators[0].ifs or not isinstance(e.generators[0].target, ast.Name):
                raise NotPointwise("comprehension shape")
            out = []
            saved = dict(self.env)
            for item in self.ev(e.generators[0].iter):
                self.env[e.generators[0].target.id] = item
                out.append(self.ev(e.elt))
            self.env = saved
            return out
        if isinstance(e, ast.Subscript):
            base = self.ev(e.value)
            if isinstance(e.slice, ast.Constant) and isinstance(base, tuple):
                return base[e.slice.value]
            idx = self.ev(e.slice)
            if isinstance(base, Pts) and isinstance(idx, Sel):
                return Pts(base.has and idx.has)
            if isinstance(base, Pts) and isinstance(idx, PB):
                return Pts(base.has and bool(idx.val))
            if isinstance(base, PB) and isinstance(idx, Sel):
                return PB(base.val if idx.has else None)
            raise NotPointwise(f"subscript {ast.unparse(e)}")
        if isinstance(e, ast.Call):
            return self.call(e)
        if isinstance(e, ast.BoolOp):
            vals = [self.ev(v) for v in e.values]
            if all(isinstance(v, bool) for v in vals):
                return all(vals) if isinstance(e.op, ast.And) else any(vals)
        if isinstance(e, ast.IfExp):
            c = self.ev(e.test)
            if isinstance(c, bool):           # a flag of the call (`index`), decided by the scenario
                return self.ev(e.body if c else e.orelse)
        raise NotPointwise(f"expression {ast.unparse(e)[:60]}")

    def combine(self, op, a, b):
        if isinstance(a, PB) and isinstance(b, PB):
            if a.val is None or b.val is None:
                return PB(None)
            if op is ast.BitAnd:
                return PB(a.val and b.val)
            if op is ast.BitOr:
                return PB(a.val or b.val)
            return PB(a.val != b.val)
        raise NotPointwise("boolean operator on non-boolean arrays")

    def call(self, e: ast.Call):
        f = e.func
        name = ast.unparse(f)
        short = name.split(".")[-1]
        if isinstance(f, ast.Attribute) and f.attr == "contains_points":
            obj = self.ev(f.value)
            if not isinstance(obj, Region):
                raise NotPointwise("contains_points on an unknown object")
            pts = self.ev(e.args[0]) if e.args else None
            if not isinstance(pts, Pts):
                raise NotPointwise("contains_points on something that is not the query points")
            rad = next((k.value for k in e.keywords if k.arg == "radius"), e.args[2] if len(e.args) > 2 else None)
            sign = None
            if rad is not None:
                sign = "-" if isinstance(rad, ast.UnaryOp) and isinstance(rad.op, ast.USub) else "+"
            self.radius_uses.append(("film" if obj is self.film else "hole", sign))
            return PB(obj.inside if pts.has else None)
        if name.endswith("logical_or.reduce") or name.endswith("logical_and.reduce"):
            items = self.ev(e.args[0])
            vals = [x.val for x in items if isinstance(x, PB)]
            if len(vals) != len(items):
                raise NotPointwise("reduce over non-boolean arrays")
            if any(v is None for v in vals):
                return PB(None)
            return PB(any(vals) if "logical_or" in name else all(vals))
        if short in ("logical_not",):
            v = self.ev(e.args[0])
            return PB(None if v.val is None else not v.val)
        if short in ("logical_and", "logical_or"):
            return self.combine(ast.BitAnd if short == "logical_and" else ast.BitOr, self.ev(e.args[0]), self.ev(e.args[1]))
        if short in ("where", "nonzero") and len(e.args) == 1:
            v = self.ev(e.args[0])
            if isinstance(v, PB):
                return (Sel(bool(v.val)),)
        if short == "flatnonzero":
            v = self.ev(e.args[0])
            if isinstance(v, PB):
                return Sel(bool(v.val))
        if short in ("atleast_2d", "asarray", "array", "atleast_1d", "squeeze") and e.args:
            v = self.ev(e.args[0])
            if isinstance(v, (Pts, PB)):
                return v
        if short in ("copy",) and isinstance(f, ast.Attribute):
            v = self.ev(f.value)
            if isinstance(v, PB):
                return PB(v.val)
        if short in ("zeros", "zeros_like", "ones", "ones_like") and any(k.arg == "dtype" and ast.unparse(k.value) == "bool" for k in e.keywords):
            return PB(short.startswith("ones"))
        if short == "len":
            raise NotPointwise("len")
        raise NotPointwise(f"call {name}")

    # -- statements -----------------------------------------------------------------------------------------------------
    def run(self, body):
        for st in body:
            self.stmt(st)

    def stmt(self, st):
        if isinstance(st, ast.Expr) and isinstance(st.value, ast.Constant):
            return
        if isinstance(st, ast.Assign) and len(st.targets) == 1:
            t = st.targets[0]
            v = self.ev(st.value)
            if isinstance(t, ast.Name):
                self.env[t.id] = PB(v.val) if isinstance(v, PB) else v
                return
            if isinstance(t, ast.Subscript) and isinstance(t.value, ast.Name):
                base = self.env.get(t.value.id)
                idx = self.ev(t.slice)
                if isinstance(base, PB) and isinstance(v, PB):
                    sel = idx.has if isinstance(idx, Sel) else (bool(idx.val) if isinstance(idx, PB) else None)
                    if sel is None:
                        raise NotPointwise("masked store index")
                    if sel:
                        if v.val is None:
                            raise NotPointwise("store of a value that does not cover the selected point")
                        base.val = v.val
                    return
            raise NotPointwise(f"assignment {ast.unparse(st)[:60]}")
        if isinstance(st, ast.AugAssign) and isinstance(st.op, (ast.BitAnd, ast.BitOr)):
            v = self.ev(st.value)
            if isinstance(st.target, ast.Name) and isinstance(self.env.get(st.target.id), PB):
                cur = self.env[st.target.id]
                cur.val = self.combine(type(st.op), cur, v).val
                return
            if isinstance(st.target, ast.Subscript) and isinstance(st.target.value, ast.Name):
                base = self.env.get(st.target.value.id)
                idx = self.ev(st.target.slice)
                sel = idx.has if isinstance(idx, Sel) else (bool(idx.val) if isinstance(idx, PB) else None)
                if isinstance(base, PB) and sel is not None:
                    if sel:
                        base.val = self.combine(type(st.op), PB(base.val), v).val
                    return
            raise NotPointwise(f"augmented assignment {ast.unparse(st)[:60]}")
        if isinstance(st, ast.For) and isinstance(st.target, ast.Name):
            for item in self.ev(st.iter):
                self.env[st.target.id] = item
                self.run(st.body)
            return
        if isinstance(st, ast.If):
            c = self.ev(st.test)
            if not isinstance(c, bool):
                raise NotPointwise("data-dependent branch")
            self.run(st.body if c else st.orelse)
            return
        if isinstance(st, ast.Return):
            raise _Return(self.ev(st.value) if st.value is not None else None)
        raise NotPointwise(f"statement {type(st).__name__}")


def truth_table(fn: ast.FunctionDef, max_holes: int = 3):
    """Evaluate `fn(self, points, index=False, radius=0)` for every truth assignment; returns (rows, radius_uses) where each row is
    (n_holes, in_film, [in_hole...], result)."""
    import itertools
    rows = []
    uses = set()
    for n in range(0, max_holes + 1):
        for bits in itertools.product([False, True], repeat=n + 1):
            film = Region("film", bits[0])
            holes = [Region(f"hole{i}", bits[i + 1]) for i in range(n)]
            params = {"points": Pts(True), "index": False, "radius": 0.0}
            ev = Evaluator(film, holes, params)
            try:
                ev.run(fn.body)
                res = None
            except _Return as r:
                res = r.v
            if not isinstance(res, PB) or res.val is None:
                raise NotPointwise("the function does not return a boolean array covering every point")
            rows.append((n, bits[0], list(bits[1:]), res.val))
            uses |= set(ev.radius_uses)
    return rows, uses
