"""Findings, known findings, evidence files, exit-code discipline."""
from __future__ import annotations

import json
import os
import sys
import time
import traceback
from pathlib import Path
from typing import Any, Dict, List, Optional

from .src import AnalysisError, Repo

VERIF = Path(__file__).resolve().parent.parent
EVID = Path(os.environ.get("PVS_EVIDENCE_DIR", VERIF / "evidence"))
KNOWN = VERIF / "known_findings.json"


class Finding:
    def __init__(self, prop, rule, where, construct, message, loc="", witness=None,
                 consequence=""):
        self.prop = prop
        self.rule = rule
        self.where = where
        self.construct = " ".join(str(construct).split())
        self.message = message
        self.loc = loc
        self.witness = witness
        self.consequence = consequence

    @property
    def key(self):
        return f"{self.prop}|{self.rule}|{self.where}|{self.construct}"

    def to_json(self):
        return {
            "property": self.prop, "rule": self.rule, "where": self.where,
            "construct": self.construct, "message": self.message, "loc": self.loc,
            "witness": self.witness, "consequence": self.consequence, "key": self.key,
        }


class Shared:
    """A view of a Ctx for running another property's sub-check under this property's rule ids.

    mapping: foreign rule id -> own rule id (obligations of other foreign rules are skipped);
    only: optional predicate on the instance text; consequence: replaces the foreign consequence text."""

    def __init__(self, ctx, mapping, only=None, consequence=None):
        self._ctx, self._map, self._only, self._cons = ctx, mapping, only, consequence

    def rule(self, *a, **k):
        pass

    def ob(self, rid, instance, ok, *a, **k):
        if rid not in self._map or (self._only is not None and not self._only(instance)):
            return ok
        if self._cons and "consequence" in k:
            k["consequence"] = self._cons
        return self._ctx.ob(self._map[rid], instance, ok, *a, **k)

    def note(self, *a, **k):
        pass

    def assume(self, *a, **k):
        pass

    def decline(self, *a, **k):
        pass

    def __getattr__(self, name):
        return getattr(self._ctx, name)


class Ctx:
    """One check run of one property."""

    def __init__(self, prop: str, tier: str, repo: Optional[Repo] = None):
        self.prop = prop
        self.tier = tier
        self.repo = repo or Repo()
        self.obligations: List[Dict[str, Any]] = []
        self.findings: List[Finding] = []
        self.assumptions: List[str] = []
        self.declined: List[str] = []
        self.analysed: Dict[str, Any] = {}
        self.rule_text: Dict[str, str] = {}
        self.floors: Dict[str, int] = {}
        self.counts: Dict[str, int] = {}
        self.extra: Dict[str, Any] = {}

    # -- recording ------------------------------------------------------------------
    def rule(self, rid: str, text: str, floor: int = 1):
        self.rule_text[rid] = text
        self.floors[rid] = floor
        self.counts.setdefault(rid, 0)

    def ob(self, rid: str, instance: str, ok: bool, detail: Any = None, nontrivial=True,
           where="", construct="", message="", loc="", witness=None, consequence=""):
        """Record one rule instance (obligation).  A failed one becomes a finding."""
        self.counts[rid] = self.counts.get(rid, 0) + 1
        self.obligations.append({
            "rule": rid, "instance": instance, "held": bool(ok),
            "nontrivial": bool(nontrivial), "detail": _j(detail),
        })
        if not ok:
            self.findings.append(Finding(
                self.prop, rid, where or instance, construct or instance,
                message or f"rule {rid} fails on {instance}", loc=loc,
                witness=_j(witness if witness is not None else detail),
                consequence=consequence))
        return ok

    def note(self, key, value):
        self.analysed[key] = value

    def assume(self, text):
        self.assumptions.append(text)

    def decline(self, text):
        self.declined.append(text)

    def check_floors(self):
        for rid, floor in self.floors.items():
            if self.counts.get(rid, 0) < floor:
                raise AnalysisError(
                    f"rule {rid} matched {self.counts.get(rid, 0)} instance(s), "
                    f"fewer than the {floor} confirmed by hand")


def _j(x):
    if x is None or isinstance(x, (bool, int, float, str)):
        return x
    if isinstance(x, dict):
        return {str(k): _j(v) for k, v in x.items()}
    if isinstance(x, (list, tuple, set, frozenset)):
        return [_j(v) for v in x]
    return str(x)


def load_known() -> Dict[str, Any]:
    if KNOWN.exists():
        return json.loads(KNOWN.read_text())
    return {"known": [], "fixed": []}


def run_check(prop: str, tier: str, fn, level="other", technique="", explanation="",
              trusted_base=None, replay_key: Optional[str] = None,
              thorough_fn=None) -> int:
    t0 = time.time()
    seed = int(os.environ.get("VERIF_SEED", "0") or 0)
    ctx = None
    try:
        ctx = Ctx(prop, tier)
        fn(ctx)
        if not ctx.findings:
            # instance floors guard against vacuous passes; when a rule already reports a violation that report is the answer
            ctx.check_floors()
        if tier == "thorough" and thorough_fn is not None:
            thorough_fn(ctx)
    except AnalysisError as e:
        known_now = {k["key"] for k in load_known().get("known", []) if k.get("property") == prop}
        if ctx is not None and any(f.key not in known_now for f in ctx.findings) and tier != "thorough":
            # a later rule could not be evaluated, but an earlier one already found a violation: that report is the answer
            print(f"NOTE property={prop} analysis stopped early ({e}); reporting the violation(s) found before that")
            ctx.analysed["analysis_stopped_early"] = str(e)
        else:
            print(f"ANALYSIS-ERROR property={prop} {e}")
            return 2
    except Exception as e:  # never let a traceback look like a violation
        traceback.print_exc(file=sys.stderr)
        print(f"ANALYSIS-ERROR property={prop} internal error: {type(e).__name__}: {e}")
        return 2

    known = load_known()
    known_keys = {k["key"]: k for k in known.get("known", []) if k.get("property") == prop}
    new, listed = [], []
    seen_keys = set()
    for f in ctx.findings:
        if replay_key is not None and f.key != replay_key:
            continue
        if f.key in seen_keys:
            continue
        seen_keys.add(f.key)
        (listed if f.key in known_keys else new).append(f)

    EVID.mkdir(parents=True, exist_ok=True)
    (EVID / "replay").mkdir(exist_ok=True)
    for f in listed:
        print(f"KNOWN-FINDING: property={prop} {f.rule} {f.where}: {f.message}")
    rc = 0
    for i, f in enumerate(new):
        rp = EVID / "replay" / f"{prop}-{i}.json"
        rp.write_text(json.dumps(f.to_json(), indent=1))
        print(f"  {f.loc} [{f.rule}] {f.where}: {f.message}")
        if f.consequence:
            print(f"    consequence: {f.consequence}")
        print(f"VIOLATION property={prop} replay={rp}")
        rc = 1
    if replay_key is not None:
        return rc

    held = sum(1 for o in ctx.obligations if o["held"])
    nontriv = len({(o["rule"], o["instance"]) for o in ctx.obligations if o["nontrivial"]})
    samples = _pick_samples(ctx.obligations)
    ev_level = level
    if level == "proof" and held != len(ctx.obligations):
        ev_level = "other"
    cov = {
        "evaluations": len(ctx.obligations),
        "distinct_nontrivial": nontriv,
        "rule": ("one evaluation = one rule instance (obligation) extracted from /repo's "
                 "current source; non-trivial = the construct contains the monitored feature "
                 "(see each sample's 'nontrivial' flag); rules: "
                 + "; ".join(f"{k}: {v}" for k, v in ctx.rule_text.items())),
        "samples": samples,
        "obligations": len(ctx.obligations),
        "discharged": held,
        "checker_cmd": f"/venv/bin/python -m pvs.check {prop} --tier {tier}",
        "trusted_base": trusted_base or [
            "pvs/alg.py exact rational-function normaliser",
            "pvs/interp.py semantic table for numpy/scipy primitives",
            "python ast module",
        ],
        "explanation": explanation or technique,
        "rule_instances": dict(ctx.counts),
        "instance_floors": dict(ctx.floors),
        "analysed": ctx.analysed,
        "declined_clauses": ctx.declined,
        "known_findings_reported": [f.key for f in listed],
        "technique": technique,
    }
    cov.update(ctx.extra)
    ev = {
        "property_id": prop, "tier": tier, "seed": seed, "level": ev_level,
        "coverage": cov, "assumptions": ctx.assumptions,
        "wall_s": round(time.time() - t0, 3), "violations": len(new),
    }
    (EVID / f"{prop}.json").write_text(json.dumps(ev, indent=1, default=str))
    n_ob = len(ctx.obligations)
    print(f"{prop} [{tier}] obligations={n_ob} held={held} known={len(listed)} "
          f"violations={len(new)} wall={ev['wall_s']}s")
    return rc


def _pick_samples(obs, per_rule=3, cap=40):
    out, seen = [], {}
    for o in obs:
        k = o["rule"]
        if seen.get(k, 0) < per_rule or not o["held"]:
            seen[k] = seen.get(k, 0) + 1
            out.append(o)
        if len(out) >= cap:
            break
    return out
