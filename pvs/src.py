"""Source model of /repo/tdgl: parsed modules, symbol index, callee resolution.

Only ``ast`` is used.  The repository root is ``$PVS_REPO`` (default /repo) so
the same checks can be pointed at a scratch copy by the self-tests.
"""
from __future__ import annotations

import ast
import hashlib
import os
from pathlib import Path
from typing import Dict, Iterator, List, Optional, Tuple


class AnalysisError(Exception):
    """Anchor vanished / idiom outside the supported fragment (exit 2)."""


def repo_root() -> Path:
    return Path(os.environ.get("PVS_REPO", "/repo"))


class FuncInfo:
    __slots__ = ("module", "qual", "node", "cls", "parent")

    def __init__(self, module, qual, node, cls=None, parent=None):
        self.module = module      # ModuleInfo
        self.qual = qual          # e.g. TDGLSolver.update, f.inner
        self.node = node
        self.cls = cls            # ClassInfo or None
        self.parent = parent      # enclosing FuncInfo or None
        try:
            node._module_tree = module.tree       # lets function-level engines find sibling helpers of the same module
        except Exception:
            pass

    @property
    def fq(self):
        return f"{self.module.name}:{self.qual}"

    def __repr__(self):
        return f"<func {self.fq}>"


class ClassInfo:
    __slots__ = ("module", "name", "node", "methods", "bases", "attr_types")

    def __init__(self, module, name, node):
        self.module = module
        self.name = name
        self.node = node
        self.methods: Dict[str, FuncInfo] = {}
        self.bases: List[str] = [ast.unparse(b) for b in node.bases]
        self.attr_types: Dict[str, str] = {}

    @property
    def fq(self):
        return f"{self.module.name}:{self.name}"


class _CanonCompare(ast.NodeTransformer):
    """One spelling per comparison: `a > b` is read as `b < a`, `a >= b` as `b <= a`; the operands of == / != are ordered
    (constants last, otherwise by text).  `is`, `in` and chained comparisons are left alone.  Line numbers are kept."""

    def visit_Compare(self, node):
        self.generic_visit(node)
        if len(node.ops) != 1:
            return node
        op = node.ops[0]
        l, r = node.left, node.comparators[0]
        if isinstance(op, (ast.Gt, ast.GtE)):
            node.left, node.comparators = r, [l]
            node.ops = [ast.Lt() if isinstance(op, ast.Gt) else ast.LtE()]
        elif isinstance(op, (ast.Eq, ast.NotEq)):
            lc, rc = isinstance(l, ast.Constant), isinstance(r, ast.Constant)
            if (lc and not rc) or (lc == rc and ast.unparse(l) > ast.unparse(r)):
                node.left, node.comparators = r, [l]
        return node


    # `set(<generator>)` is the set comprehension, `list(<generator>)` the list comprehension
    def visit_Call(self, node):
        self.generic_visit(node)
        if isinstance(node.func, ast.Name) and node.func.id in ("set", "list") and len(node.args) == 1 and not node.keywords \
                and isinstance(node.args[0], ast.GeneratorExp):
            g = node.args[0]
            new = (ast.SetComp if node.func.id == "set" else ast.ListComp)(elt=g.elt, generators=g.generators)
            return ast.copy_location(new, node)
        return node

    # `not not x` -> x ;  `if not c: A else: B` -> `if c: B else: A` (same for conditional expressions; elif chains untouched)
    def visit_UnaryOp(self, node):
        self.generic_visit(node)
        if isinstance(node.op, ast.Not) and isinstance(node.operand, ast.UnaryOp) and isinstance(node.operand.op, ast.Not):
            return node.operand.operand
        return node

    def visit_If(self, node):
        self.generic_visit(node)
        if isinstance(node.test, ast.UnaryOp) and isinstance(node.test.op, ast.Not) and node.orelse \
                and not (len(node.orelse) == 1 and isinstance(node.orelse[0], ast.If)):
            node.test = node.test.operand
            node.body, node.orelse = node.orelse, node.body
        return node

    def visit_IfExp(self, node):
        self.generic_visit(node)
        if isinstance(node.test, ast.UnaryOp) and isinstance(node.test.op, ast.Not):
            node.test = node.test.operand
            node.body, node.orelse = node.orelse, node.body
        return node


def _inline_return_temps(tree: ast.AST) -> None:
    """`t = E; return t` and `t = E; obj.attr = t` (t a local used nowhere else in the function) are read as `return E` / `obj.attr = E`."""
    for fn in ast.walk(tree):
        if not isinstance(fn, (ast.FunctionDef, ast.AsyncFunctionDef)):
            continue
        uses: Dict[str, int] = {}
        for n in ast.walk(fn):
            if isinstance(n, ast.Name):
                uses[n.id] = uses.get(n.id, 0) + 1

        def block(stmts):
            i = 0
            while i + 1 < len(stmts):
                a, b = stmts[i], stmts[i + 1]
                if isinstance(a, ast.Assign) and len(a.targets) == 1 and isinstance(a.targets[0], ast.Name) \
                        and uses.get(a.targets[0].id, 0) == 2:
                    t = a.targets[0].id
                    if isinstance(b, ast.Return) and isinstance(b.value, ast.Name) and b.value.id == t:
                        b.value = a.value
                        del stmts[i]
                        continue
                    # `t = E; obj.attr = t` is read as `obj.attr = E`
                    if isinstance(b, ast.Assign) and isinstance(b.value, ast.Name) and b.value.id == t and len(b.targets) == 1 \
                            and (isinstance(b.targets[0], ast.Attribute) or t.startswith("_ret__h")):
                        b.value = a.value
                        del stmts[i]
                        continue
                    # `t = E; return t.m(...)` / `t = E; x = f(t)`: the single use in the next simple statement reads E itself
                    if isinstance(b, (ast.Return, ast.Assign, ast.Expr)) and not isinstance(a.value, (ast.Lambda,)):
                        loads = [x for x in ast.walk(b) if isinstance(x, ast.Name) and x.id == t and isinstance(x.ctx, ast.Load)]
                        in_scope = not any(isinstance(x, (ast.Lambda, ast.ListComp, ast.SetComp, ast.DictComp, ast.GeneratorExp)) for x in ast.walk(b))
                        if len(loads) == 1 and in_scope and isinstance(a.value, ast.Call) and t.startswith(("_ret__h",)) or (
                                len(loads) == 1 and in_scope and isinstance(b, ast.Return) and isinstance(b.value, ast.Call)
                                and isinstance(b.value.func, ast.Attribute) and b.value.func.value is loads[0]):
                            _SubstNames({t: a.value}).visit(b)
                            del stmts[i]
                            continue
                i += 1
        for n in ast.walk(fn):
            for fld in ("body", "orelse", "finalbody"):
                v = getattr(n, fld, None)
                if isinstance(v, list) and v and isinstance(v[0], ast.stmt):
                    block(v)


class _SubstNames(ast.NodeTransformer):
    def __init__(self, mapping):
        self.mapping = mapping

    def visit_Name(self, node):
        if isinstance(node.ctx, ast.Load) and node.id in self.mapping:
            import copy
            return copy.deepcopy(self.mapping[node.id])
        return node


class _FoldAttrCalls(ast.NodeTransformer):
    """getattr(x, "a") -> x.a ; setattr(x, "a", v) -> x.a = v (statement level) for constant attribute names."""

    def visit_JoinedStr(self, node):
        # f"_{'field_units'}" (what is left of f"_{name}" once the loop over the names is unrolled) -> "_field_units"
        self.generic_visit(node)
        parts = []
        for v in node.values:
            if isinstance(v, ast.Constant) and isinstance(v.value, str):
                parts.append(v.value)
            elif isinstance(v, ast.FormattedValue) and v.conversion == -1 and v.format_spec is None and isinstance(v.value, ast.Constant) \
                    and isinstance(v.value.value, str):
                parts.append(v.value.value)
            else:
                return node
        return ast.copy_location(ast.Constant(value="".join(parts)), node)

    def visit_Call(self, node):
        self.generic_visit(node)
        if isinstance(node.func, ast.Name) and node.func.id == "getattr" and len(node.args) == 2 and not node.keywords \
                and isinstance(node.args[1], ast.Constant) and isinstance(node.args[1].value, str) and node.args[1].value.isidentifier():
            return ast.copy_location(ast.Attribute(value=node.args[0], attr=node.args[1].value, ctx=ast.Load()), node)
        return node

    def visit_Expr(self, node):
        self.generic_visit(node)
        c = node.value
        if isinstance(c, ast.Call) and isinstance(c.func, ast.Name) and c.func.id == "setattr" and len(c.args) == 3 and not c.keywords \
                and isinstance(c.args[1], ast.Constant) and isinstance(c.args[1].value, str) and c.args[1].value.isidentifier():
            tgt = ast.Attribute(value=c.args[0], attr=c.args[1].value, ctx=ast.Store())
            return ast.copy_location(ast.Assign(targets=[tgt], value=c.args[2]), node)
        return node


def _unroll_const_loops(tree: ast.Module) -> None:
    """Loops and comprehensions over a module-level constant tuple of strings (`_FIELDS = ("a", "b")`) are read as their
    unrolling, with getattr/setattr on the constant names folded to attribute access: a table-driven writer/reader is read
    like the statement-per-field version."""
    import copy
    consts = {}
    for st in tree.body:
        if isinstance(st, ast.Assign) and len(st.targets) == 1 and isinstance(st.targets[0], ast.Name) and isinstance(st.value, (ast.Tuple, ast.List)) \
                and st.value.elts and all(isinstance(e, ast.Constant) and isinstance(e.value, str) for e in st.value.elts):
            consts[st.targets[0].id] = [e.value for e in st.value.elts]
    # function-local tables and literal tuples count as well when the loop variable selects an attribute or an HDF5 key
    # (getattr/setattr/hasattr(obj, var), mapping[var], var in mapping): that is the table-driven writer/reader idiom
    def selects(body_nodes, var):
        for x in body_nodes:
            for y in ast.walk(x):
                if isinstance(y, ast.Call) and isinstance(y.func, ast.Name) and y.func.id in ("getattr", "setattr", "hasattr") and len(y.args) >= 2 \
                        and isinstance(y.args[1], ast.Name) and y.args[1].id == var:
                    return True
        return False
    for fn in ast.walk(tree):
        if not isinstance(fn, ast.FunctionDef):
            continue
        local_consts = {}
        for st in ast.walk(fn):
            if isinstance(st, ast.Assign) and len(st.targets) == 1 and isinstance(st.targets[0], ast.Name) and isinstance(st.value, (ast.Tuple, ast.List)) \
                    and st.value.elts and all(isinstance(e, ast.Constant) and isinstance(e.value, str) for e in st.value.elts):
                local_consts[st.targets[0].id] = st.value
        for lp in ast.walk(fn):
            if isinstance(lp, ast.For) and isinstance(lp.target, ast.Name):
                it = lp.iter
                if isinstance(it, ast.Name) and it.id in local_consts and it.id not in consts:
                    it = local_consts[it.id]
                if isinstance(it, (ast.Tuple, ast.List)) and it.elts and all(isinstance(e, ast.Constant) and isinstance(e.value, str) for e in it.elts) \
                        and selects(lp.body, lp.target.id):
                    key = f"__lit{id(lp)}"
                    consts[key] = [e.value for e in it.elts]
                    lp.iter = ast.copy_location(ast.Name(id=key, ctx=ast.Load()), lp.iter)
    # `for name, value in TABLE.items():` over a function-local dict literal with constant string keys whose body selects an
    # attribute by `name` (setattr / getattr): read as one copy of the body per entry, preceded by `value = <entry>`
    for fn in ast.walk(tree):
        if not isinstance(fn, ast.FunctionDef):
            continue
        dicts = {}
        counts: Dict[str, int] = {}
        for st in ast.walk(fn):
            if isinstance(st, ast.Assign) and len(st.targets) == 1 and isinstance(st.targets[0], ast.Name):
                counts[st.targets[0].id] = counts.get(st.targets[0].id, 0) + 1
                if isinstance(st.value, ast.Dict) and st.value.keys and all(isinstance(k, ast.Constant) and isinstance(k.value, str) for k in st.value.keys):
                    dicts[st.targets[0].id] = st.value
        dicts = {k: v for k, v in dicts.items() if counts.get(k) == 1}
        if not dicts:
            continue

        def unroll_items(stmts):
            out = []
            for st in stmts:
                for fld in ("body", "orelse", "finalbody"):
                    v = getattr(st, fld, None)
                    if isinstance(v, list) and v and isinstance(v[0], ast.stmt) and not isinstance(st, (ast.FunctionDef, ast.ClassDef)):
                        setattr(st, fld, unroll_items(v))
                if isinstance(st, ast.For) and not st.orelse and isinstance(st.iter, ast.Call) and isinstance(st.iter.func, ast.Attribute) \
                        and st.iter.func.attr == "items" and not st.iter.args and isinstance(st.iter.func.value, ast.Name) \
                        and st.iter.func.value.id in dicts and isinstance(st.target, ast.Tuple) and len(st.target.elts) == 2 \
                        and all(isinstance(x, ast.Name) for x in st.target.elts) and selects(st.body, st.target.elts[0].id) \
                        and not any(isinstance(x, (ast.Break, ast.Continue)) for x in ast.walk(st)):
                    kv, vv = st.target.elts[0].id, st.target.elts[1].id
                    d = dicts[st.iter.func.value.id]
                    for k, val in zip(d.keys, d.values):
                        first = ast.Assign(targets=[ast.Name(id=vv, ctx=ast.Store())], value=copy.deepcopy(val))
                        out.append(ast.fix_missing_locations(ast.copy_location(first, st)))
                        for b in st.body:
                            nb = _SubstNames({kv: ast.Constant(value=k.value)}).visit(copy.deepcopy(b))
                            out.append(_FoldAttrCalls().visit(nb))
                else:
                    out.append(st)
            return out
        fn.body = unroll_items(fn.body)
    if not consts:
        return

    def subst(node, var, value):
        n = copy.deepcopy(node)
        n = _SubstNames({var: ast.Constant(value=value)}).visit(n)
        return _FoldAttrCalls().visit(n)

    class Unroll(ast.NodeTransformer):
        def _block(self, stmts):
            out = []
            for st in stmts:
                if isinstance(st, ast.For) and isinstance(st.iter, ast.Name) and st.iter.id in consts and isinstance(st.target, ast.Name) \
                        and not st.orelse and not any(isinstance(x, (ast.Break, ast.Continue)) for x in ast.walk(st)):
                    for v in consts[st.iter.id]:
                        for b in st.body:
                            out.append(subst(b, st.target.id, v))
                else:
                    out.append(st)
            return out

        def generic_visit(self, node):
            super().generic_visit(node)
            for fld in ("body", "orelse", "finalbody"):
                v = getattr(node, fld, None)
                if isinstance(v, list) and v and isinstance(v[0], ast.stmt):
                    setattr(node, fld, self._block(v))
            return node

        def _comp(self, node, make):
            self.generic_visit(node)
            g = node.generators
            if len(g) == 1 and isinstance(g[0].iter, ast.Name) and g[0].iter.id in consts and isinstance(g[0].target, ast.Name) and not g[0].ifs:
                return ast.copy_location(make([v for v in consts[g[0].iter.id]], g[0].target.id), node)
            return node

        def visit_ListComp(self, node):
            return self._comp(node, lambda vals, var: ast.List(elts=[subst(node.elt, var, v) for v in vals], ctx=ast.Load()))

        def visit_GeneratorExp(self, node):
            return self._comp(node, lambda vals, var: ast.List(elts=[subst(node.elt, var, v) for v in vals], ctx=ast.Load()))

        def visit_DictComp(self, node):
            return self._comp(node, lambda vals, var: ast.Dict(keys=[subst(node.key, var, v) for v in vals], values=[subst(node.value, var, v) for v in vals]))

        def visit_Call(self, node):
            self.generic_visit(node)
            # all([a, b, c]) / any([...]) over an unrolled table -> a and b and c
            if isinstance(node.func, ast.Name) and node.func.id in ("all", "any") and len(node.args) == 1 and isinstance(node.args[0], ast.List) \
                    and getattr(node.args[0], "_unrolled", False):
                return ast.copy_location(ast.BoolOp(op=ast.And() if node.func.id == "all" else ast.Or(), values=node.args[0].elts), node)
            return node

    class FoldConst(ast.NodeTransformer):
        """After unrolling: `"a" != "b"` -> True, `if True: A else: B` -> A, `f(**{"k": v})` -> f(k=v)."""

        def visit_Compare(self, node):
            self.generic_visit(node)
            if len(node.ops) == 1 and isinstance(node.left, ast.Constant) and isinstance(node.left.value, str):
                c = node.comparators[0]
                op = node.ops[0]
                if isinstance(c, ast.Constant) and isinstance(c.value, str) and isinstance(op, (ast.Eq, ast.NotEq)):
                    v = (node.left.value == c.value) if isinstance(op, ast.Eq) else (node.left.value != c.value)
                    return ast.copy_location(ast.Constant(value=v), node)
                if isinstance(c, (ast.Tuple, ast.List, ast.Set)) and all(isinstance(e, ast.Constant) for e in c.elts) and isinstance(op, (ast.In, ast.NotIn)):
                    v = node.left.value in [e.value for e in c.elts]
                    return ast.copy_location(ast.Constant(value=v if isinstance(op, ast.In) else not v), node)
            return node

        def visit_Call(self, node):
            self.generic_visit(node)
            new_kw = []
            for k in node.keywords:
                if k.arg is None and isinstance(k.value, ast.Dict) and k.value.keys and all(
                        isinstance(x, ast.Constant) and isinstance(x.value, str) and x.value.isidentifier() for x in k.value.keys):
                    for kk, vv in zip(k.value.keys, k.value.values):
                        new_kw.append(ast.keyword(arg=kk.value, value=vv))
                else:
                    new_kw.append(k)
            node.keywords = new_kw
            return node

        def _prune(self, stmts):
            out = []
            for st in stmts:
                if isinstance(st, ast.If) and isinstance(st.test, ast.Constant) and isinstance(st.test.value, bool):
                    out.extend(st.body if st.test.value else st.orelse)
                elif isinstance(st, ast.If) and isinstance(st.test, ast.UnaryOp) and isinstance(st.test.op, ast.Not) \
                        and isinstance(st.test.operand, ast.Constant) and isinstance(st.test.operand.value, bool):
                    out.extend(st.orelse if st.test.operand.value else st.body)
                else:
                    out.append(st)
            return out

        def generic_visit(self, node):
            super().generic_visit(node)
            for fld in ("body", "orelse", "finalbody"):
                v = getattr(node, fld, None)
                if isinstance(v, list) and v and isinstance(v[0], ast.stmt):
                    nv = self._prune(v)
                    setattr(node, fld, nv if nv or fld != "body" else [ast.Pass()])
            return node

    u = Unroll()
    # mark unrolled generator lists so that all()/any() can be folded
    orig_comp = u._comp

    def comp_mark(node, make):
        r = orig_comp(node, make)
        if r is not node and isinstance(r, ast.List):
            r._unrolled = True
        return r
    u._comp = comp_mark
    u.visit(tree)
    FoldConst().visit(tree)


def _inline_trivial_helpers(tree: ast.Module) -> None:
    """Private helpers whose body is one `return <expr>` (module functions, and methods called on self / cls) are read as if
    written at their call sites: `return self._joined_with(first, "union", name).union(*rest)` is read like the expression
    it abbreviates."""
    import copy

    def trivial(fn):
        if not isinstance(fn, ast.FunctionDef) or not fn.name.startswith("_") or fn.name.startswith("__"):
            return None
        if any(not (isinstance(d, ast.Name) and d.id in ("staticmethod", "classmethod")) for d in fn.decorator_list):
            return None
        a = fn.args
        if a.vararg or a.kwarg or a.posonlyargs:
            return None
        body = [s_ for s_ in fn.body if not (isinstance(s_, ast.Expr) and isinstance(s_.value, ast.Constant))]
        if len(body) != 1 or not isinstance(body[0], ast.Return) or body[0].value is None:
            return None
        if any(isinstance(x, ast.Call) and isinstance(x.func, (ast.Name, ast.Attribute)) and (getattr(x.func, "id", None) == fn.name or getattr(x.func, "attr", None) == fn.name)
               for x in ast.walk(body[0].value)):
            return None          # recursive
        if any(isinstance(x, (ast.Lambda, ast.Yield, ast.YieldFrom, ast.Await, ast.NamedExpr)) for x in ast.walk(body[0].value)):
            return None
        return body[0].value

    def bind(fn, call, skip_first):
        a = fn.args
        params = [p_.arg for p_ in a.args][(1 if skip_first else 0):]
        defaults = dict(zip([p_.arg for p_ in a.args][len(a.args) - len(a.defaults):], a.defaults))
        for p_, d in zip(a.kwonlyargs, a.kw_defaults):
            if d is not None:
                defaults[p_.arg] = d
        allp = params + [p_.arg for p_ in a.kwonlyargs]
        m = {}
        if any(isinstance(x, ast.Starred) for x in call.args) or any(k.arg is None for k in call.keywords) or len(call.args) > len(params):
            return None
        for p_, v in zip(params, call.args):
            m[p_] = v
        for k in call.keywords:
            if k.arg not in allp or k.arg in m:
                return None
            m[k.arg] = k.value
        for p_ in allp:
            if p_ not in m:
                if p_ not in defaults:
                    return None
                m[p_] = defaults[p_]
        return m

    mod_helpers = {f.name: f for f in tree.body if trivial(f) is not None}
    classes = [c for c in ast.walk(tree) if isinstance(c, ast.ClassDef)]
    cls_helpers = {id(c): {f.name: f for f in c.body if trivial(f) is not None} for c in classes}

    class Inline(ast.NodeTransformer):
        def __init__(self, methods):
            self.methods = methods

        def visit_Call(self, node):
            self.generic_visit(node)
            f = node.func
            target = None
            skip = False
            if isinstance(f, ast.Name) and f.id in mod_helpers:
                target = mod_helpers[f.id]
            elif isinstance(f, ast.Attribute) and isinstance(f.value, ast.Name) and f.value.id in ("self", "cls") and f.attr in self.methods:
                target = self.methods[f.attr]
                static = any(isinstance(d, ast.Name) and d.id == "staticmethod" for d in target.decorator_list)
                skip = not static
                if skip and (not target.args.args or target.args.args[0].arg not in ("self", "cls") or target.args.args[0].arg != f.value.id):
                    return node
            if target is None:
                return node
            m = bind(target, node, skip)
            if m is None:
                return node
            expr = copy.deepcopy(trivial(target))
            expr = _SubstNames(m).visit(expr)
            return ast.copy_location(expr, node)

    for _ in range(2):      # helpers may use helpers
        for c in classes:
            for fn in c.body:
                if isinstance(fn, ast.FunctionDef) and trivial(fn) is None or isinstance(fn, ast.FunctionDef):
                    if fn.name in cls_helpers[id(c)] and trivial(fn) is not None:
                        continue
                    Inline(cls_helpers[id(c)]).visit(fn)
        for fn in tree.body:
            if isinstance(fn, ast.FunctionDef) and fn.name not in mod_helpers:
                Inline({}).visit(fn)


class _SpliceCalls(ast.NodeTransformer):
    """`f(*(a, b), **{"k": v})` reads `f(a, b, k=v)` (left behind when a helper with *args / **kwargs is read at its call site)."""

    def visit_Call(self, node):
        self.generic_visit(node)
        args = []
        for a in node.args:
            if isinstance(a, ast.Starred) and isinstance(a.value, (ast.Tuple, ast.List)) and not any(isinstance(x, ast.Starred) for x in a.value.elts):
                args.extend(a.value.elts)
            else:
                args.append(a)
        node.args = args
        new_kw = []
        for k in node.keywords:
            if k.arg is None and isinstance(k.value, ast.Dict) and all(
                    isinstance(x, ast.Constant) and isinstance(x.value, str) and x.value.isidentifier() for x in k.value.keys):
                for kk, vv in zip(k.value.keys, k.value.values):
                    new_kw.append(ast.keyword(arg=kk.value, value=vv))
            else:
                new_kw.append(k)
        node.keywords = new_kw
        return node


def _splice_dict_temps(tree: ast.AST) -> None:
    """`kw = {"a": x, "b": y}` (assigned once, used once, as `f(..., **kw)`) reads `f(..., a=x, b=y)`: keyword arguments assembled in a
    dict literal first."""
    for fn in ast.walk(tree):
        if not isinstance(fn, (ast.FunctionDef, ast.AsyncFunctionDef)):
            continue
        uses: Dict[str, int] = {}
        for n in ast.walk(fn):
            if isinstance(n, ast.Name):
                uses[n.id] = uses.get(n.id, 0) + 1
        defs = {}
        for holder in ast.walk(fn):
            for fld in ("body", "orelse", "finalbody"):
                v = getattr(holder, fld, None)
                if isinstance(v, list):
                    for st in v:
                        if isinstance(st, ast.Assign) and len(st.targets) == 1 and isinstance(st.targets[0], ast.Name) and isinstance(st.value, ast.Dict) \
                                and st.value.keys and all(isinstance(k, ast.Constant) and isinstance(k.value, str) and k.value.isidentifier() for k in st.value.keys) \
                                and uses.get(st.targets[0].id) == 2:
                            defs[st.targets[0].id] = (v, st)
        if not defs:
            continue
        done = set()
        for c in ast.walk(fn):
            if isinstance(c, ast.Call):
                new_kw = []
                for k in c.keywords:
                    if k.arg is None and isinstance(k.value, ast.Name) and k.value.id in defs and k.value.id not in done:
                        d = defs[k.value.id][1].value
                        new_kw += [ast.keyword(arg=kk.value, value=vv) for kk, vv in zip(d.keys, d.values)]
                        done.add(k.value.id)
                    else:
                        new_kw.append(k)
                c.keywords = new_kw
        for nm in done:
            body, st = defs[nm]
            if st in body:
                body.remove(st)
                if not body:
                    body.append(ast.Pass())


def _splice_tuple_temps(tree: ast.AST) -> int:
    """`t = (a, b)` (assigned once, used once, as `f(*t, ...)`) reads `f(a, b, ...)`: positional arguments packed in a tuple first."""
    n = 0
    for fn in ast.walk(tree):
        if not isinstance(fn, (ast.FunctionDef, ast.AsyncFunctionDef)):
            continue
        uses: Dict[str, int] = {}
        for x in ast.walk(fn):
            if isinstance(x, ast.Name):
                uses[x.id] = uses.get(x.id, 0) + 1
        defs = {}
        for holder in ast.walk(fn):
            for fld in ("body", "orelse", "finalbody"):
                v = getattr(holder, fld, None)
                if isinstance(v, list):
                    for st in v:
                        if isinstance(st, ast.Assign) and len(st.targets) == 1 and isinstance(st.targets[0], ast.Name) and isinstance(st.value, ast.Tuple) \
                                and not any(isinstance(e, ast.Starred) for e in st.value.elts) and uses.get(st.targets[0].id) == 2:
                            defs[st.targets[0].id] = (v, st)
        if not defs:
            continue
        done = set()
        for c in ast.walk(fn):
            if isinstance(c, ast.Call):
                new_args = []
                for a in c.args:
                    if isinstance(a, ast.Starred) and isinstance(a.value, ast.Name) and a.value.id in defs and a.value.id not in done:
                        new_args += list(defs[a.value.id][1].value.elts)
                        done.add(a.value.id)
                    else:
                        new_args.append(a)
                c.args = new_args
        for nm in done:
            body, st = defs[nm]
            if st in body:
                body.remove(st)
                if not body:
                    body.append(ast.Pass())
        n += len(done)
    return n


class _LowerMatch(ast.NodeTransformer):
    """`match` statements are read as the if / elif chain they abbreviate, for the pattern kinds the chain can express exactly:
    literal and dotted-name value patterns, `None` / `True` / `False`, class patterns without sub-patterns (`str()`, `np.ndarray()`)
    or with positional sub-patterns on a builtin sequence type (`tuple((a, b))`), fixed-length sequence patterns of captures /
    wildcards / the above, or-patterns, `as` bindings, capture patterns, guards and `_`.  Anything else (mapping patterns, star
    patterns, keyword sub-patterns) is left alone - the readers then say `Match is outside the model`."""

    def __init__(self):
        self.n = 0

    def _test(self, pat, subj):
        """(test expr or None for 'always', [bindings (name, expr)]) or raises ValueError for an unsupported pattern"""
        if isinstance(pat, ast.MatchValue):
            return ast.Compare(left=subj, ops=[ast.Eq()], comparators=[pat.value]), []
        if isinstance(pat, ast.MatchSingleton):
            return ast.Compare(left=subj, ops=[ast.Is()], comparators=[ast.Constant(pat.value)]), []
        if isinstance(pat, ast.MatchAs):
            if pat.pattern is None:
                return None, ([(pat.name, subj)] if pat.name else [])
            t, b = self._test(pat.pattern, subj)
            return t, b + ([(pat.name, subj)] if pat.name else [])
        if isinstance(pat, ast.MatchOr):
            tests = []
            for p_ in pat.patterns:
                t, b = self._test(p_, subj)
                if b:
                    raise ValueError("bindings in an or-pattern")
                if t is None:
                    return None, []
                tests.append(t)
            return ast.BoolOp(op=ast.Or(), values=tests), []
        if isinstance(pat, ast.MatchClass):
            if pat.kwd_attrs or pat.kwd_patterns:
                raise ValueError("keyword sub-patterns")
            isinst = ast.Call(func=ast.Name(id="isinstance", ctx=ast.Load()), args=[subj, pat.cls], keywords=[])
            if not pat.patterns:
                return isinst, []
            if len(pat.patterns) == 1 and isinstance(pat.cls, ast.Name) and pat.cls.id in ("tuple", "list", "str", "int", "float", "bool", "bytes", "dict", "set", "frozenset"):
                t, b = self._test(pat.patterns[0], subj)      # builtins match the whole subject against their one positional sub-pattern
                return (isinst if t is None else ast.BoolOp(op=ast.And(), values=[isinst, t])), b
            raise ValueError("positional sub-patterns of a user class")
        if isinstance(pat, ast.MatchSequence) and sum(isinstance(p_, ast.MatchStar) for p_ in pat.patterns) == 1:
            k = next(i for i, p_ in enumerate(pat.patterns) if isinstance(p_, ast.MatchStar))
            before, star, after = pat.patterns[:k], pat.patterns[k], pat.patterns[k + 1:]
            seq = ast.Call(func=ast.Name(id="isinstance", ctx=ast.Load()), args=[subj, ast.Tuple(elts=[ast.Name(id="tuple", ctx=ast.Load()), ast.Name(id="list", ctx=ast.Load())], ctx=ast.Load())], keywords=[])
            ln = ast.Compare(left=ast.Constant(len(before) + len(after)), ops=[ast.LtE()], comparators=[ast.Call(func=ast.Name(id="len", ctx=ast.Load()), args=[subj], keywords=[])])
            tests, binds = [seq, ln], []
            for i, p_ in enumerate(before):
                t, b = self._test(p_, ast.Subscript(value=subj, slice=ast.Constant(i), ctx=ast.Load()))
                if t is not None:
                    tests.append(t)
                binds += b
            for j, p_ in enumerate(after):
                idx = ast.UnaryOp(op=ast.USub(), operand=ast.Constant(len(after) - j))
                t, b = self._test(p_, ast.Subscript(value=subj, slice=idx, ctx=ast.Load()))
                if t is not None:
                    tests.append(t)
                binds += b
            if star.name:
                hi = None if not after else ast.UnaryOp(op=ast.USub(), operand=ast.Constant(len(after)))
                sl = ast.Slice(lower=ast.Constant(len(before)) if before else None, upper=hi, step=None)
                binds.append((star.name, ast.Call(func=ast.Name(id="list", ctx=ast.Load()), args=[ast.Subscript(value=subj, slice=sl, ctx=ast.Load())], keywords=[])))
            return ast.BoolOp(op=ast.And(), values=tests), binds
        if isinstance(pat, ast.MatchSequence):
            if any(isinstance(p_, ast.MatchStar) for p_ in pat.patterns):
                raise ValueError("star pattern")
            seq = ast.Call(func=ast.Name(id="isinstance", ctx=ast.Load()), args=[subj, ast.Tuple(elts=[ast.Name(id="tuple", ctx=ast.Load()), ast.Name(id="list", ctx=ast.Load())], ctx=ast.Load())], keywords=[])
            ln = ast.Compare(left=ast.Call(func=ast.Name(id="len", ctx=ast.Load()), args=[subj], keywords=[]), ops=[ast.Eq()], comparators=[ast.Constant(len(pat.patterns))])
            tests, binds = [seq, ln], []
            for i, p_ in enumerate(pat.patterns):
                el = ast.Subscript(value=subj, slice=ast.Constant(i), ctx=ast.Load())
                t, b = self._test(p_, el)
                if t is not None:
                    tests.append(t)
                binds += b
            return ast.BoolOp(op=ast.And(), values=tests), binds
        raise ValueError(type(pat).__name__)

    def visit_Match(self, node: ast.Match):
        self.generic_visit(node)
        import copy
        pre = []
        subj = node.subject
        if isinstance(subj, ast.Tuple) and all(isinstance(e, (ast.Name, ast.Attribute, ast.Constant)) for e in subj.elts):
            pass        # `match a, b:` - the elements are re-read, which is harmless for names and attributes
        elif not isinstance(subj, (ast.Name, ast.Attribute)):
            self.n += 1
            tmp = f"_match_subject_{self.n}"
            pre.append(ast.Assign(targets=[ast.Name(id=tmp, ctx=ast.Store())], value=subj))
            subj = ast.Name(id=tmp, ctx=ast.Load())
        try:
            arms = []
            for case in node.cases:
                pat = case.pattern
                if isinstance(subj, ast.Tuple) and isinstance(pat, ast.MatchSequence) and len(pat.patterns) == len(subj.elts) \
                        and not any(isinstance(p_, ast.MatchStar) for p_ in pat.patterns):
                    tests, binds = [], []
                    for el, p_ in zip(subj.elts, pat.patterns):
                        t, b = self._test(p_, copy.deepcopy(el))
                        if t is not None:
                            tests.append(t)
                        binds += b
                    test = None if not tests else tests[0] if len(tests) == 1 else ast.BoolOp(op=ast.And(), values=tests)
                else:
                    test, binds = self._test(pat, copy.deepcopy(subj))
                body = [ast.Assign(targets=[ast.Name(id=n_, ctx=ast.Store())], value=copy.deepcopy(v_)) for n_, v_ in binds] + list(case.body)
                if case.guard is not None:
                    if binds:
                        # the guard may use the bindings: substitute them
                        class _Sub(ast.NodeTransformer):
                            def visit_Name(self_, n_):
                                for bn, bv in binds:
                                    if n_.id == bn and isinstance(n_.ctx, ast.Load):
                                        return copy.deepcopy(bv)
                                return n_
                        g = _Sub().visit(copy.deepcopy(case.guard))
                    else:
                        g = case.guard
                    test = g if test is None else ast.BoolOp(op=ast.And(), values=[test, g])
                arms.append((test, body))
        except ValueError:
            return node
        # build the chain from the last arm backwards
        chain = None
        for test, body in reversed(arms):
            if test is None:
                chain = list(body)
            else:
                chain = [ast.If(test=test, body=list(body), orelse=chain or [])]
        out = pre + (chain or [ast.Pass()])
        for st in out:
            ast.copy_location(st, node)
        return [ast.fix_missing_locations(st) for st in out]


def canon_compare(tree: ast.AST, modname: str = "") -> ast.AST:
    tree = _LowerMatch().visit(tree)
    ast.fix_missing_locations(tree)
    tree = _CanonCompare().visit(tree)
    _inline_return_temps(tree)
    if isinstance(tree, ast.Module):
        _unroll_const_loops(tree)
        _inline_return_temps(tree)
        _inline_trivial_helpers(tree)
        from .inline import expand_module
        if expand_module(tree, modname):
            ast.fix_missing_locations(tree)
            _unroll_const_loops(tree)          # a loop over constant names whose body became visible by the expansion
            _inline_return_temps(tree)
        _splice_dict_temps(tree)
        spliced = _splice_tuple_temps(tree)
        _SpliceCalls().visit(tree)
        if spliced:
            # a helper whose call was `h(*packed, x)` can be read at its call site now
            if expand_module(tree, modname):
                ast.fix_missing_locations(tree)
                _inline_return_temps(tree)
    return ast.fix_missing_locations(tree)


class ModuleInfo:
    def __init__(self, name: str, path: Path, source: str):
        self.name = name
        self.path = path
        self.source = source
        self.tree = canon_compare(ast.parse(source, filename=str(path)), name)
        self.functions: Dict[str, FuncInfo] = {}
        self.classes: Dict[str, ClassInfo] = {}
        self.imports: Dict[str, str] = {}     # local name -> dotted target
        self.assigns: Dict[str, ast.expr] = {}

    @property
    def rel(self):
        return str(self.path)


class Repo:
    def __init__(self, root: Optional[Path] = None, include_tests=False):
        self.root = Path(root) if root else repo_root()
        self.modules: Dict[str, ModuleInfo] = {}
        pkg = self.root / "tdgl"
        if not pkg.is_dir():
            raise AnalysisError(f"no tdgl package under {self.root}")
        for p in sorted(pkg.rglob("*.py")):
            relp = p.relative_to(self.root)
            parts = list(relp.with_suffix("").parts)
            if not include_tests and "test" in parts:
                continue
            if parts[-1] == "__init__":
                parts = parts[:-1]
            name = ".".join(parts)
            try:
                src = p.read_text()
                self.modules[name] = ModuleInfo(name, relp, src)
            except SyntaxError as e:
                raise AnalysisError(f"cannot parse {relp}: {e}")
        for m in self.modules.values():
            self._index(m)
        for _ in range(2):
            for m in self.modules.values():
                for c in m.classes.values():
                    self._infer_attr_types(c)

    # -- indexing ----------------------------------------------------------------
    def _index(self, m: ModuleInfo):
        is_pkg = m.path.name == "__init__.py"
        pkg_parts = m.name.split(".") if is_pkg else m.name.split(".")[:-1]

        def handle_import(node):
            if isinstance(node, ast.Import):
                for a in node.names:
                    m.imports[a.asname or a.name.split(".")[0]] = a.name if a.asname else a.name.split(".")[0]
            elif isinstance(node, ast.ImportFrom):
                if node.level:
                    base = pkg_parts[: len(pkg_parts) - (node.level - 1)]
                    mod = ".".join(base + ([node.module] if node.module else []))
                else:
                    mod = node.module or ""
                for a in node.names:
                    m.imports[a.asname or a.name] = f"{mod}.{a.name}"

        def walk_body(body, prefix, cls, parent):
            for node in body:
                if isinstance(node, (ast.Import, ast.ImportFrom)):
                    handle_import(node)
                elif isinstance(node, (ast.FunctionDef, ast.AsyncFunctionDef)):
                    if getattr(node, "_inlined_away", False):
                        continue          # an extracted helper that is read at its call sites (pvs/inline.py)
                    qual = f"{prefix}{node.name}"
                    fi = FuncInfo(m, qual, node, cls=cls, parent=parent)
                    m.functions[qual] = fi
                    if cls is not None and parent is None:
                        cls.methods[node.name] = fi
                    walk_nested(node.body, qual + ".", cls, fi)
                elif isinstance(node, ast.ClassDef):
                    ci = ClassInfo(m, node.name, node)
                    m.classes[node.name] = ci
                    walk_body(node.body, node.name + ".", ci, None)
                elif isinstance(node, ast.Assign) and cls is None and parent is None:
                    for t in node.targets:
                        if isinstance(t, ast.Name):
                            m.assigns[t.id] = node.value
                elif isinstance(node, (ast.If, ast.Try)):
                    for sub in _sub_bodies(node):
                        walk_body(sub, prefix, cls, parent)

        def walk_nested(body, prefix, cls, parent):
            for node in body:
                if isinstance(node, (ast.FunctionDef, ast.AsyncFunctionDef)):
                    if getattr(node, "_inlined_away", False):
                        continue
                    qual = f"{prefix}{node.name}"
                    fi = FuncInfo(m, qual, node, cls=cls, parent=parent)
                    m.functions[qual] = fi
                    walk_nested(node.body, qual + ".", cls, fi)
                elif isinstance(node, (ast.Import, ast.ImportFrom)):
                    handle_import(node)
                else:
                    for sub in _sub_bodies(node):
                        walk_nested(sub, prefix, cls, parent)

        walk_body(m.tree.body, "", None, None)

    def _infer_attr_types(self, c: ClassInfo):
        """self.x = ClassName(...) / self.x = param (annotated) in any method."""
        for fi in c.methods.values():
            ann = self.local_types(fi)
            for node in ast.walk(fi.node):
                if isinstance(node, (ast.Assign, ast.AnnAssign)):
                    targets = node.targets if isinstance(node, ast.Assign) else [node.target]
                    val = node.value
                    for t in targets:
                        if (isinstance(t, ast.Attribute) and isinstance(t.value, ast.Name)
                                and t.value.id == "self"):
                            ty = None
                            if isinstance(node, ast.AnnAssign):
                                ty = self._ann_class(fi.module, node.annotation)
                            if ty is None and isinstance(val, ast.Call):
                                r = self.resolve_name_expr(fi.module, val.func)
                                if isinstance(r, ClassInfo):
                                    ty = r.fq
                            if ty is None and isinstance(val, ast.Name) and val.id in ann:
                                ty = ann[val.id]
                            if ty and t.attr not in c.attr_types:
                                c.attr_types[t.attr] = ty

    def _ann_class(self, m: ModuleInfo, ann: ast.expr) -> Optional[str]:
        """Class named by an annotation (Optional[X]/Union[X, None]/"X" ok)."""
        if isinstance(ann, ast.Constant) and isinstance(ann.value, str):
            try:
                ann = ast.parse(ann.value, mode="eval").body
            except SyntaxError:
                return None
        if isinstance(ann, ast.Subscript):
            base = ast.unparse(ann.value)
            if base in ("Optional", "Union", "typing.Optional", "typing.Union"):
                elts = ann.slice.elts if isinstance(ann.slice, ast.Tuple) else [ann.slice]
                found = [self._ann_class(m, e) for e in elts]
                found = [f for f in found if f]
                return found[0] if len(found) == 1 else None
            return None
        r = self.resolve_name_expr(m, ann)
        if isinstance(r, ClassInfo):
            return r.fq
        return None

    # -- lookup ------------------------------------------------------------------
    def module(self, name: str) -> ModuleInfo:
        if name not in self.modules:
            raise AnalysisError(f"anchor module {name} not found")
        return self.modules[name]

    def func(self, module: str, qual: str) -> FuncInfo:
        m = self.module(module)
        if qual not in m.functions:
            raise AnalysisError(f"anchor function {module}:{qual} not found")
        return m.functions[qual]

    def cls(self, module: str, name: str) -> ClassInfo:
        m = self.module(module)
        if name not in m.classes:
            raise AnalysisError(f"anchor class {module}:{name} not found")
        return m.classes[name]

    def by_fq(self, fq: str):
        mod, _, qual = fq.partition(":")
        m = self.modules.get(mod)
        if m is None:
            return None
        return m.functions.get(qual) or m.classes.get(qual)

    def all_functions(self) -> Iterator[FuncInfo]:
        for m in self.modules.values():
            yield from m.functions.values()

    def resolve_dotted(self, dotted: str):
        """tdgl.x.y.Name -> FuncInfo | ClassInfo | ModuleInfo | None (follows re-exports)."""
        seen = set()
        while dotted not in seen:
            seen.add(dotted)
            if dotted in self.modules:
                return self.modules[dotted]
            mod, _, name = dotted.rpartition(".")
            m = self.modules.get(mod)
            if m is None:
                return None
            if name in m.functions:
                return m.functions[name]
            if name in m.classes:
                return m.classes[name]
            if name in m.imports:
                dotted = m.imports[name]
                continue
            return None
        return None

    def resolve_name_expr(self, m: ModuleInfo, expr: ast.expr):
        """Resolve Name / dotted Attribute in module scope to a repo symbol."""
        if isinstance(expr, ast.Name):
            n = expr.id
            if n in m.functions:
                return m.functions[n]
            if n in m.classes:
                return m.classes[n]
            if n in m.imports:
                return self.resolve_dotted(m.imports[n])
            return None
        if isinstance(expr, ast.Attribute):
            base = self.resolve_name_expr(m, expr.value)
            if isinstance(base, ModuleInfo):
                return self.resolve_dotted(f"{base.name}.{expr.attr}")
            if isinstance(base, ClassInfo):
                return self.method(base, expr.attr)
            return None
        return None

    def mro(self, c: ClassInfo) -> List[ClassInfo]:
        out = [c]
        for b in c.bases:
            try:
                r = self.resolve_name_expr(c.module, ast.parse(b, mode="eval").body)
            except SyntaxError:
                r = None
            if isinstance(r, ClassInfo):
                for x in self.mro(r):
                    if x not in out:
                        out.append(x)
        return out

    def method(self, c: ClassInfo, name: str) -> Optional[FuncInfo]:
        for k in self.mro(c):
            if name in k.methods:
                return k.methods[name]
        return None

    def external_name(self, m: ModuleInfo, expr: ast.expr) -> Optional[str]:
        """Dotted name of a non-repo callee, with import aliases expanded
        (np.random.default_rng -> numpy.random.default_rng)."""
        parts = []
        e = expr
        while isinstance(e, ast.Attribute):
            parts.append(e.attr)
            e = e.value
        if not isinstance(e, ast.Name):
            return None
        head = m.imports.get(e.id, e.id)
        return ".".join([head] + parts[::-1])

    # -- call resolution inside a function -----------------------------------------
    def local_types(self, fi: FuncInfo) -> Dict[str, str]:
        """name -> class fq for annotated params and `x = Class(...)`, `x = self.attr`
        and `with Class(...) as x` locals."""
        out: Dict[str, str] = {}
        m = fi.module
        for a in fi.node.args.args + fi.node.args.kwonlyargs + fi.node.args.posonlyargs:
            if a.annotation is not None:
                t = self._ann_class(m, a.annotation)
                if t:
                    out[a.arg] = t
        if fi.cls is not None and fi.node.args.args and not _is_static(fi.node):
            out.setdefault(fi.node.args.args[0].arg, fi.cls.fq)
        for node in ast.walk(fi.node):
            if isinstance(node, ast.Assign) and len(node.targets) == 1 and isinstance(node.targets[0], ast.Name):
                t = self.expr_type(fi, node.value, out)
                if t:
                    out.setdefault(node.targets[0].id, t)
            elif isinstance(node, ast.With):
                for it in node.items:
                    if isinstance(it.optional_vars, ast.Name):
                        t = self.expr_type(fi, it.context_expr, out)
                        if t:
                            out.setdefault(it.optional_vars.id, t)
        return out

    def expr_type(self, fi: FuncInfo, e: ast.expr, env: Dict[str, str]) -> Optional[str]:
        if isinstance(e, ast.Name):
            return env.get(e.id)
        if isinstance(e, ast.Call):
            r = self.resolve_name_expr(fi.module, e.func)
            if isinstance(r, ClassInfo):
                return r.fq
            return None
        if isinstance(e, ast.Attribute):
            bt = self.expr_type(fi, e.value, env)
            if bt:
                c = self.by_fq(bt)
                if isinstance(c, ClassInfo):
                    for k in self.mro(c):
                        if e.attr in k.attr_types:
                            return k.attr_types[e.attr]
            return None
        return None

    def resolve_call(self, fi: FuncInfo, call: ast.Call, env: Optional[Dict[str, str]] = None):
        """-> FuncInfo | ClassInfo | ('ext', dotted) | None"""
        if env is None:
            env = self.local_types(fi)
        f = call.func
        # nested function of this (or an enclosing) function
        if isinstance(f, ast.Name):
            p = fi
            while p is not None:
                q = f"{p.qual}.{f.id}"
                if q in fi.module.functions:
                    return fi.module.functions[q]
                p = p.parent
        r = self.resolve_name_expr(fi.module, f)
        if r is not None and not isinstance(r, ModuleInfo):
            return r
        if isinstance(f, ast.Attribute):
            bt = self.expr_type(fi, f.value, env)
            if bt:
                c = self.by_fq(bt)
                if isinstance(c, ClassInfo):
                    meth = self.method(c, f.attr)
                    if meth is not None:
                        return meth
                    # callable stored in an attribute (Runner.function)
                    return ("attr", f"{bt}.{f.attr}")
        ext = self.external_name(fi.module, f)
        if ext:
            return ("ext", ext)
        return None


def _is_static(node: ast.FunctionDef) -> bool:
    for d in node.decorator_list:
        if isinstance(d, ast.Name) and d.id == "staticmethod":
            return True
    return False


def _sub_bodies(node) -> List[list]:
    out = []
    for f in ("body", "orelse", "finalbody"):
        b = getattr(node, f, None)
        if isinstance(b, list) and b and isinstance(b[0], ast.stmt):
            out.append(b)
    if isinstance(node, ast.Try):
        for h in node.handlers:
            out.append(h.body)
    return out


def norm(node: ast.AST) -> str:
    """Normalised text of a construct: used in finding keys (never line numbers)."""
    return ast.unparse(node)


def loc(fi: FuncInfo, node: ast.AST) -> str:
    return f"{fi.module.rel}:{getattr(node, 'lineno', '?')}"


def digest(repo: Repo, modules: List[str]) -> str:
    h = hashlib.sha256()
    for n in sorted(modules):
        h.update(n.encode())
        h.update(repo.module(n).source.encode())
    return h.hexdigest()[:16]


def find_stmts(fn: ast.AST, pred) -> List[ast.stmt]:
    return [n for n in ast.walk(fn) if isinstance(n, ast.stmt) and pred(n)]


def calls_in(node: ast.AST) -> List[ast.Call]:
    return [n for n in ast.walk(node) if isinstance(n, ast.Call)]


def own_nodes(fn: ast.FunctionDef) -> Iterator[ast.AST]:
    """Nodes of a function body in source order, not descending into nested
    defs / lambdas / classes (the nested def node itself is yielded)."""
    def rec(n):
        yield n
        if isinstance(n, (ast.FunctionDef, ast.AsyncFunctionDef, ast.ClassDef, ast.Lambda)):
            return
        for ch in ast.iter_child_nodes(n):
            yield from rec(ch)
    for st in fn.body:
        yield from rec(st)


def rename_id(text: str, name: str, repl: str) -> str:
    """Replace the identifier `name` (whole word) in unparsed source text."""
    import re
    return re.sub(rf"(?<![A-Za-z0-9_]){re.escape(name)}(?![A-Za-z0-9_])", repl, text)
