"""Source model of /repo/tdgl: parsed modules, symbol index, callee resolution.

Only ``ast`` is used.  The repository root is ``$PVS_REPO`` (default /repo) so
the same checks can be pointed at a scratch copy by the self-tests.
"""
from __future__ import annotations

import ast
import hashlib
import os
from pathlib import Path
from typing import Dict, Iterator, List, Optional, Tuple


class AnalysisError(Exception):
    """Anchor vanished / idiom outside the supported fragment (exit 2)."""


def repo_root() -> Path:
    return Path(os.environ.get("PVS_REPO", "/repo"))


class FuncInfo:
    __slots__ = ("module", "qual", "node", "cls", "parent")

    def __init__(self, module, qual, node, cls=None, parent=None):
        self.module = module      # ModuleInfo
        self.qual = qual          # e.g. TDGLSolver.update, f.inner
        self.node = node
        self.cls = cls            # ClassInfo or None
        self.parent = parent      # enclosing FuncInfo or None

    @property
    def fq(self):
        return f"{self.module.name}:{self.qual}"

    def __repr__(self):
        return f"<func {self.fq}>"


class ClassInfo:
    __slots__ = ("module", "name", "node", "methods", "bases", "attr_types")

    def __init__(self, module, name, node):
        self.module = module
        self.name = name
        self.node = node
        self.methods: Dict[str, FuncInfo] = {}
        self.bases: List[str] = [ast.unparse(b) for b in node.bases]
        self.attr_types: Dict[str, str] = {}

    @property
    def fq(self):
        return f"{self.module.name}:{self.name}"


class _CanonCompare(ast.NodeTransformer):
    """One spelling per comparison: `a > b` is read as `b < a`, `a >= b` as `b <= a`; the operands of == / != are ordered
    (constants last, otherwise by text).  `is`, `in` and chained comparisons are left alone.  Line numbers are kept."""

    def visit_Compare(self, node):
        self.generic_visit(node)
        if len(node.ops) != 1:
            return node
        op = node.ops[0]
        l, r = node.left, node.comparators[0]
        if isinstance(op, (ast.Gt, ast.GtE)):
            node.left, node.comparators = r, [l]
            node.ops = [ast.Lt() if isinstance(op, ast.Gt) else ast.LtE()]
        elif isinstance(op, (ast.Eq, ast.NotEq)):
            lc, rc = isinstance(l, ast.Constant), isinstance(r, ast.Constant)
            if (lc and not rc) or (lc == rc and ast.unparse(l) > ast.unparse(r)):
                node.left, node.comparators = r, [l]
        return node


    # `not not x` -> x ;  `if not c: A else: B` -> `if c: B else: A` (same for conditional expressions; elif chains untouched)
    def visit_UnaryOp(self, node):
        self.generic_visit(node)
        if isinstance(node.op, ast.Not) and isinstance(node.operand, ast.UnaryOp) and isinstance(node.operand.op, ast.Not):
            return node.operand.operand
        return node

    def visit_If(self, node):
        self.generic_visit(node)
        if isinstance(node.test, ast.UnaryOp) and isinstance(node.test.op, ast.Not) and node.orelse \
                and not (len(node.orelse) == 1 and isinstance(node.orelse[0], ast.If)):
            node.test = node.test.operand
            node.body, node.orelse = node.orelse, node.body
        return node

    def visit_IfExp(self, node):
        self.generic_visit(node)
        if isinstance(node.test, ast.UnaryOp) and isinstance(node.test.op, ast.Not):
            node.test = node.test.operand
            node.body, node.orelse = node.orelse, node.body
        return node


def _inline_return_temps(tree: ast.AST) -> None:
    """`t = E; return t` and `t = E; obj.attr = t` (t a local used nowhere else in the function) are read as `return E` / `obj.attr = E`."""
    for fn in ast.walk(tree):
        if not isinstance(fn, (ast.FunctionDef, ast.AsyncFunctionDef)):
            continue
        uses: Dict[str, int] = {}
        for n in ast.walk(fn):
            if isinstance(n, ast.Name):
                uses[n.id] = uses.get(n.id, 0) + 1

        def block(stmts):
            i = 0
            while i + 1 < len(stmts):
                a, b = stmts[i], stmts[i + 1]
                if isinstance(a, ast.Assign) and len(a.targets) == 1 and isinstance(a.targets[0], ast.Name) \
                        and uses.get(a.targets[0].id, 0) == 2:
                    t = a.targets[0].id
                    if isinstance(b, ast.Return) and isinstance(b.value, ast.Name) and b.value.id == t:
                        b.value = a.value
                        del stmts[i]
                        continue
                    # `t = E; obj.attr = t` is read as `obj.attr = E`
                    if isinstance(b, ast.Assign) and isinstance(b.value, ast.Name) and b.value.id == t and len(b.targets) == 1 \
                            and isinstance(b.targets[0], ast.Attribute):
                        b.value = a.value
                        del stmts[i]
                        continue
                i += 1
        for n in ast.walk(fn):
            for fld in ("body", "orelse", "finalbody"):
                v = getattr(n, fld, None)
                if isinstance(v, list) and v and isinstance(v[0], ast.stmt):
                    block(v)


def canon_compare(tree: ast.AST) -> ast.AST:
    tree = _CanonCompare().visit(tree)
    _inline_return_temps(tree)
    return ast.fix_missing_locations(tree)


class ModuleInfo:
    def __init__(self, name: str, path: Path, source: str):
        self.name = name
        self.path = path
        self.source = source
        self.tree = canon_compare(ast.parse(source, filename=str(path)))
        self.functions: Dict[str, FuncInfo] = {}
        self.classes: Dict[str, ClassInfo] = {}
        self.imports: Dict[str, str] = {}     # local name -> dotted target
        self.assigns: Dict[str, ast.expr] = {}

    @property
    def rel(self):
        return str(self.path)


class Repo:
    def __init__(self, root: Optional[Path] = None, include_tests=False):
        self.root = Path(root) if root else repo_root()
        self.modules: Dict[str, ModuleInfo] = {}
        pkg = self.root / "tdgl"
        if not pkg.is_dir():
            raise AnalysisError(f"no tdgl package under {self.root}")
        for p in sorted(pkg.rglob("*.py")):
            relp = p.relative_to(self.root)
            parts = list(relp.with_suffix("").parts)
            if not include_tests and "test" in parts:
                continue
            if parts[-1] == "__init__":
                parts = parts[:-1]
            name = ".".join(parts)
            try:
                src = p.read_text()
                self.modules[name] = ModuleInfo(name, relp, src)
            except SyntaxError as e:
                raise AnalysisError(f"cannot parse {relp}: {e}")
        for m in self.modules.values():
            self._index(m)
        for _ in range(2):
            for m in self.modules.values():
                for c in m.classes.values():
                    self._infer_attr_types(c)

    # -- indexing ----------------------------------------------------------------
    def _index(self, m: ModuleInfo):
        is_pkg = m.path.name == "__init__.py"
        pkg_parts = m.name.split(".") if is_pkg else m.name.split(".")[:-1]

        def handle_import(node):
            if isinstance(node, ast.Import):
                for a in node.names:
                    m.imports[a.asname or a.name.split(".")[0]] = a.name if a.asname else a.name.split(".")[0]
            elif isinstance(node, ast.ImportFrom):
                if node.level:
                    base = pkg_parts[: len(pkg_parts) - (node.level - 1)]
                    mod = ".".join(base + ([node.module] if node.module else []))
                else:
                    mod = node.module or ""
                for a in node.names:
                    m.imports[a.asname or a.name] = f"{mod}.{a.name}"

        def walk_body(body, prefix, cls, parent):
            for node in body:
                if isinstance(node, (ast.Import, ast.ImportFrom)):
                    handle_import(node)
                elif isinstance(node, (ast.FunctionDef, ast.AsyncFunctionDef)):
                    qual = f"{prefix}{node.name}"
                    fi = FuncInfo(m, qual, node, cls=cls, parent=parent)
                    m.functions[qual] = fi
                    if cls is not None and parent is None:
                        cls.methods[node.name] = fi
                    walk_nested(node.body, qual + ".", cls, fi)
                elif isinstance(node, ast.ClassDef):
                    ci = ClassInfo(m, node.name, node)
                    m.classes[node.name] = ci
                    walk_body(node.body, node.name + ".", ci, None)
                elif isinstance(node, ast.Assign) and cls is None and parent is None:
                    for t in node.targets:
                        if isinstance(t, ast.Name):
                            m.assigns[t.id] = node.value
                elif isinstance(node, (ast.If, ast.Try)):
                    for sub in _sub_bodies(node):
                        walk_body(sub, prefix, cls, parent)

        def walk_nested(body, prefix, cls, parent):
            for node in body:
                if isinstance(node, (ast.FunctionDef, ast.AsyncFunctionDef)):
                    qual = f"{prefix}{node.name}"
                    fi = FuncInfo(m, qual, node, cls=cls, parent=parent)
                    m.functions[qual] = fi
                    walk_nested(node.body, qual + ".", cls, fi)
                elif isinstance(node, (ast.Import, ast.ImportFrom)):
                    handle_import(node)
                else:
                    for sub in _sub_bodies(node):
                        walk_nested(sub, prefix, cls, parent)

        walk_body(m.tree.body, "", None, None)

    def _infer_attr_types(self, c: ClassInfo):
        """self.x = ClassName(...) / self.x = param (annotated) in any method."""
        for fi in c.methods.values():
            ann = self.local_types(fi)
            for node in ast.walk(fi.node):
                if isinstance(node, (ast.Assign, ast.AnnAssign)):
                    targets = node.targets if isinstance(node, ast.Assign) else [node.target]
                    val = node.value
                    for t in targets:
                        if (isinstance(t, ast.Attribute) and isinstance(t.value, ast.Name)
                                and t.value.id == "self"):
                            ty = None
                            if isinstance(node, ast.AnnAssign):
                                ty = self._ann_class(fi.module, node.annotation)
                            if ty is None and isinstance(val, ast.Call):
                                r = self.resolve_name_expr(fi.module, val.func)
                                if isinstance(r, ClassInfo):
                                    ty = r.fq
                            if ty is None and isinstance(val, ast.Name) and val.id in ann:
                                ty = ann[val.id]
                            if ty and t.attr not in c.attr_types:
                                c.attr_types[t.attr] = ty

    def _ann_class(self, m: ModuleInfo, ann: ast.expr) -> Optional[str]:
        """Class named by an annotation (Optional[X]/Union[X, None]/"X" ok)."""
        if isinstance(ann, ast.Constant) and isinstance(ann.value, str):
            try:
                ann = ast.parse(ann.value, mode="eval").body
            except SyntaxError:
                return None
        if isinstance(ann, ast.Subscript):
            base = ast.unparse(ann.value)
            if base in ("Optional", "Union", "typing.Optional", "typing.Union"):
                elts = ann.slice.elts if isinstance(ann.slice, ast.Tuple) else [ann.slice]
                found = [self._ann_class(m, e) for e in elts]
                found = [f for f in found if f]
                return found[0] if len(found) == 1 else None
            return None
        r = self.resolve_name_expr(m, ann)
        if isinstance(r, ClassInfo):
            return r.fq
        return None

    # -- lookup ------------------------------------------------------------------
    def module(self, name: str) -> ModuleInfo:
        if name not in self.modules:
            raise AnalysisError(f"anchor module {name} not found")
        return self.modules[name]

    def func(self, module: str, qual: str) -> FuncInfo:
        m = self.module(module)
        if qual not in m.functions:
            raise AnalysisError(f"anchor function {module}:{qual} not found")
        return m.functions[qual]

    def cls(self, module: str, name: str) -> ClassInfo:
        m = self.module(module)
        if name not in m.classes:
            raise AnalysisError(f"anchor class {module}:{name} not found")
        return m.classes[name]

    def by_fq(self, fq: str):
        mod, _, qual = fq.partition(":")
        m = self.modules.get(mod)
        if m is None:
            return None
        return m.functions.get(qual) or m.classes.get(qual)

    def all_functions(self) -> Iterator[FuncInfo]:
        for m in self.modules.values():
            yield from m.functions.values()

    def resolve_dotted(self, dotted: str):
        """tdgl.x.y.Name -> FuncInfo | ClassInfo | ModuleInfo | None (follows re-exports)."""
        seen = set()
        while dotted not in seen:
            seen.add(dotted)
            if dotted in self.modules:
                return self.modules[dotted]
            mod, _, name = dotted.rpartition(".")
            m = self.modules.get(mod)
            if m is None:
                return None
            if name in m.functions:
                return m.functions[name]
            if name in m.classes:
                return m.classes[name]
            if name in m.imports:
                dotted = m.imports[name]
                continue
            return None
        return None

    def resolve_name_expr(self, m: ModuleInfo, expr: ast.expr):
        """Resolve Name / dotted Attribute in module scope to a repo symbol."""
        if isinstance(expr, ast.Name):
            n = expr.id
            if n in m.functions:
                return m.functions[n]
            if n in m.classes:
                return m.classes[n]
            if n in m.imports:
                return self.resolve_dotted(m.imports[n])
            return None
        if isinstance(expr, ast.Attribute):
            base = self.resolve_name_expr(m, expr.value)
            if isinstance(base, ModuleInfo):
                return self.resolve_dotted(f"{base.name}.{expr.attr}")
            if isinstance(base, ClassInfo):
                return self.method(base, expr.attr)
            return None
        return None

    def mro(self, c: ClassInfo) -> List[ClassInfo]:
        out = [c]
        for b in c.bases:
            try:
                r = self.resolve_name_expr(c.module, ast.parse(b, mode="eval").body)
            except SyntaxError:
                r = None
            if isinstance(r, ClassInfo):
                for x in self.mro(r):
                    if x not in out:
                        out.append(x)
        return out

    def method(self, c: ClassInfo, name: str) -> Optional[FuncInfo]:
        for k in self.mro(c):
            if name in k.methods:
                return k.methods[name]
        return None

    def external_name(self, m: ModuleInfo, expr: ast.expr) -> Optional[str]:
        """Dotted name of a non-repo callee, with import aliases expanded
        (np.random.default_rng -> numpy.random.default_rng)."""
        parts = []
        e = expr
        while isinstance(e, ast.Attribute):
            parts.append(e.attr)
            e = e.value
        if not isinstance(e, ast.Name):
            return None
        head = m.imports.get(e.id, e.id)
        return ".".join([head] + parts[::-1])

    # -- call resolution inside a function -----------------------------------------
    def local_types(self, fi: FuncInfo) -> Dict[str, str]:
        """name -> class fq for annotated params and `x = Class(...)`, `x = self.attr`
        and `with Class(...) as x` locals."""
        out: Dict[str, str] = {}
        m = fi.module
        for a in fi.node.args.args + fi.node.args.kwonlyargs + fi.node.args.posonlyargs:
            if a.annotation is not None:
                t = self._ann_class(m, a.annotation)
                if t:
                    out[a.arg] = t
        if fi.cls is not None and fi.node.args.args and not _is_static(fi.node):
            out.setdefault(fi.node.args.args[0].arg, fi.cls.fq)
        for node in ast.walk(fi.node):
            if isinstance(node, ast.Assign) and len(node.targets) == 1 and isinstance(node.targets[0], ast.Name):
                t = self.expr_type(fi, node.value, out)
                if t:
                    out.setdefault(node.targets[0].id, t)
            elif isinstance(node, ast.With):
                for it in node.items:
                    if isinstance(it.optional_vars, ast.Name):
                        t = self.expr_type(fi, it.context_expr, out)
                        if t:
                            out.setdefault(it.optional_vars.id, t)
        return out

    def expr_type(self, fi: FuncInfo, e: ast.expr, env: Dict[str, str]) -> Optional[str]:
        if isinstance(e, ast.Name):
            return env.get(e.id)
        if isinstance(e, ast.Call):
            r = self.resolve_name_expr(fi.module, e.func)
            if isinstance(r, ClassInfo):
                return r.fq
            return None
        if isinstance(e, ast.Attribute):
            bt = self.expr_type(fi, e.value, env)
            if bt:
                c = self.by_fq(bt)
                if isinstance(c, ClassInfo):
                    for k in self.mro(c):
                        if e.attr in k.attr_types:
                            return k.attr_types[e.attr]
            return None
        return None

    def resolve_call(self, fi: FuncInfo, call: ast.Call, env: Optional[Dict[str, str]] = None):
        """-> FuncInfo | ClassInfo | ('ext', dotted) | None"""
        if env is None:
            env = self.local_types(fi)
        f = call.func
        # nested function of this (or an enclosing) function
        if isinstance(f, ast.Name):
            p = fi
            while p is not None:
                q = f"{p.qual}.{f.id}"
                if q in fi.module.functions:
                    return fi.module.functions[q]
                p = p.parent
        r = self.resolve_name_expr(fi.module, f)
        if r is not None and not isinstance(r, ModuleInfo):
            return r
        if isinstance(f, ast.Attribute):
            bt = self.expr_type(fi, f.value, env)
            if bt:
                c = self.by_fq(bt)
                if isinstance(c, ClassInfo):
                    meth = self.method(c, f.attr)
                    if meth is not None:
                        return meth
                    # callable stored in an attribute (Runner.function)
                    return ("attr", f"{bt}.{f.attr}")
        ext = self.external_name(fi.module, f)
        if ext:
            return ("ext", ext)
        return None


def _is_static(node: ast.FunctionDef) -> bool:
    for d in node.decorator_list:
        if isinstance(d, ast.Name) and d.id == "staticmethod":
            return True
    return False


def _sub_bodies(node) -> List[list]:
    out = []
    for f in ("body", "orelse", "finalbody"):
        b = getattr(node, f, None)
        if isinstance(b, list) and b and isinstance(b[0], ast.stmt):
            out.append(b)
    if isinstance(node, ast.Try):
        for h in node.handlers:
            out.append(h.body)
    return out


def norm(node: ast.AST) -> str:
    """Normalised text of a construct: used in finding keys (never line numbers)."""
    return ast.unparse(node)


def loc(fi: FuncInfo, node: ast.AST) -> str:
    return f"{fi.module.rel}:{getattr(node, 'lineno', '?')}"


def digest(repo: Repo, modules: List[str]) -> str:
    h = hashlib.sha256()
    for n in sorted(modules):
        h.update(n.encode())
        h.update(repo.module(n).source.encode())
    return h.hexdigest()[:16]


def find_stmts(fn: ast.AST, pred) -> List[ast.stmt]:
    return [n for n in ast.walk(fn) if isinstance(n, ast.stmt) and pred(n)]


def calls_in(node: ast.AST) -> List[ast.Call]:
    return [n for n in ast.walk(node) if isinstance(n, ast.Call)]


def own_nodes(fn: ast.FunctionDef) -> Iterator[ast.AST]:
    """Nodes of a function body in source order, not descending into nested
    defs / lambdas / classes (the nested def node itself is yielded)."""
    def rec(n):
        yield n
        if isinstance(n, (ast.FunctionDef, ast.AsyncFunctionDef, ast.ClassDef, ast.Lambda)):
            return
        for ch in ast.iter_child_nodes(n):
            yield from rec(ch)
    for st in fn.body:
        yield from rec(st)


def rename_id(text: str, name: str, repl: str) -> str:
    """Replace the identifier `name` (whole word) in unparsed source text."""
    import re
    return re.sub(rf"(?<![A-Za-z0-9_]){re.escape(name)}(?![A-Za-z0-9_])", repl, text)
