"""What TDGLSolver.solve() hands to Runner(...), per scenario, by following the statements of solve() (pvs/smallstep.py).

The state table can be written as two dict literals, as `dict(zip(names, values))`, or filled in a loop over (name, value, flag)
triples: the rules are about what the Runner receives - `names`, `initial_values`, `fixed_names`, `fixed_values` - so that is
what is computed, for every combination of {fresh start, seed} x {static, dynamic vector potential} x {static, dynamic epsilon}
x {probes} x {screening}.
"""
from __future__ import annotations

import itertools
from typing import Any, Dict, List, Tuple

from .smallstep import Machine, Opaque, render
from .src import AnalysisError

SOLVER = "tdgl.solver.solver"
SEED = "SEED"


class _Stop(Exception):
    pass


def runner_arguments(repo) -> List[Tuple[Dict[str, Any], Dict[str, Any]]]:
    """[(scenario, {"names": [...], "values": [...], "fixed_names": [...], "fixed_values": [...], "running": {...}})]"""
    fs = repo.func(SOLVER, "TDGLSolver.solve")
    out = []
    for seed, dyn_a, dyn_e, probes, screening in itertools.product((False, True), repeat=5):
        sc = {"seed": seed, "dynamic_vector_potential": dyn_a, "dynamic_epsilon": dyn_e, "probes": probes, "screening": screening}
        got: Dict[str, Any] = {}

        def attrs(text, sc=sc):
            last = text.split(".")[-1]
            if text in ("self.seed_solution",):
                return Opaque(SEED) if sc["seed"] else None
            if text == "self.dynamic_vector_potential":
                return sc["dynamic_vector_potential"]
            if text == "self.dynamic_epsilon":
                return sc["dynamic_epsilon"]
            if text == "self.use_cupy":
                return False
            if text == "self.probe_points":
                return Opaque("PROBES") if sc["probes"] else None
            if last == "include_screening":
                return sc["screening"]
            return NotImplemented

        C = repo.cls(SOLVER, "TDGLSolver")

        def call(m, node, name, args, kwargs, got=got):
            if name == "Runner":
                got.update(kwargs)
                raise _Stop()
            short = name.split(".")[-1]
            # private helper methods of the solver (a solve() split into pieces) are followed
            if name.startswith("self._") and name.count(".") == 1 and short in C.methods:
                h = C.methods[short].node
                from .smallstep import Closure
                decos = {getattr(d, "id", "") for d in h.decorator_list}
                if "staticmethod" in decos:
                    return m.invoke(Closure(h, None), list(args), kwargs)
                return m.invoke(Closure(h, None), [Opaque("self")] + list(args), kwargs)
            return NotImplemented

        def undecided(text):
            # tests that do not select what the Runner receives
            if "tmp_file" in text or ".device" in text:
                return "tmp_file" in text
            return None
        from .smallstep import module_constants
        env0 = dict(module_constants(fs.module.tree))
        env0["self"] = Opaque("self")
        m = Machine(env0, attrs, call, fuel=64, undecided=undecided)
        try:
            m.run(fs.node.body)
        except _Stop:
            pass
        need = ("names", "initial_values", "fixed_names", "fixed_values")
        if any(k not in got for k in need):
            raise AnalysisError(f"solve() no longer constructs Runner({', '.join(k + '=...' for k in need)}) on every path")
        names, values, fnames, fvalues = (got[k] for k in need)
        if not (isinstance(names, (list, tuple)) and isinstance(values, (list, tuple)) and isinstance(fnames, (list, tuple))
                and isinstance(fvalues, (list, tuple)) and all(isinstance(n, str) for n in list(names) + list(fnames))):
            raise AnalysisError(f"the arguments of Runner(...) are not tables of named values in the model: names={render(names)[:80]}")
        running = got.get("running_names_and_sizes")
        out.append((sc, {"names": list(names), "values": [render(v) for v in values], "fixed_names": list(fnames),
                         "fixed_values": [render(v) for v in fvalues], "running": running if isinstance(running, dict) else None}))
    return out


def solve_outcomes(repo):
    """solve() followed to its end for `runner.run()` returning True / False: [(ran, events, result)] with the events WITH-ENTER,
    RUN, SOLUTION (the constructor call), SAVE (solution.to_hdf5()), WITH-EXIT in the order they happen."""
    fs = repo.func(SOLVER, "TDGLSolver.solve")
    C = repo.cls(SOLVER, "TDGLSolver")
    from .smallstep import Closure, _Return, module_constants
    out = []
    for ran in (True, False):
        events: List[str] = []
        solution_kwargs: Dict[str, str] = {}

        class _M(Machine):
            def with_(self, items, body):
                if items and "DataHandler" in render(self.ev(items[0].context_expr)):
                    events.append("WITH-ENTER")
                    try:
                        return super().with_(items, body)
                    finally:
                        events.append("WITH-EXIT")
                return super().with_(items, body)

        def attrs(text):
            last = text.split(".")[-1]
            if text == "self.seed_solution" or text == "self.probe_points":
                return None
            if text in ("self.dynamic_vector_potential", "self.dynamic_epsilon", "self.use_cupy") or last == "include_screening":
                return False
            return NotImplemented

        def call(m, node, name, args, kwargs, events=events, ran=ran):
            short = name.split(".")[-1]
            if name == "Runner":
                return Opaque("RUNNER")
            if name == "RUNNER.run":
                events.append("RUN")
                return ran
            if name == "Solution":
                events.append("SOLUTION")
                solution_kwargs.update({k_: render(v_) for k_, v_ in kwargs.items()})
                return Opaque("SOLUTION", ("call", "Solution", list(args), dict(kwargs), None))
            if name == "SOLUTION.to_hdf5":
                events.append("SAVE")
                return None
            if name == "isinstance":
                return False
            if name.startswith("self._") and name.count(".") == 1 and short in C.methods:
                h = C.methods[short].node
                decos = {getattr(d, "id", "") for d in h.decorator_list}
                if "staticmethod" in decos:
                    return m.invoke(Closure(h, None), list(args), kwargs)
                return m.invoke(Closure(h, None), [Opaque("self")] + list(args), kwargs)
            return NotImplemented

        def undecided(text):
            if "tmp_file" in text or ".device" in text:
                return "tmp_file" in text
            if text in ("output_file", "options.output_file", "self.options.output_file"):
                return True                   # the scenario: an explicit output path was requested
            return None
        env0 = dict(module_constants(fs.module.tree))
        env0["self"] = Opaque("self")
        m = _M(env0, attrs, call, fuel=64, undecided=undecided)
        kind, val = m.run_function(fs.node)
        out.append((ran, events, (kind, val)))
        if ran:
            out[-1] = out[-1] + (solution_kwargs,)
    return out


def terminal_info_fields(repo):
    """Device.terminal_info followed (pvs/smallstep.py; private helpers and NamedTuple carriers included) for a device with one
    terminal `T`: the fields of the TerminalInfo it builds, as rendered symbolic expressions {field: text}."""
    from .smallstep import Record, follow_private_methods, module_constants
    DEVICE = "tdgl.device.device"
    f = repo.func(DEVICE, "Device.terminal_info")
    D = repo.cls(DEVICE, "Device")

    from .run_trace import _RunMachine, RunTrace

    class _M(_RunMachine):                    # attributes the method stores on self are real state (a remembered result)
        def iterate(self, v, node):
            if isinstance(v, Opaque) and v.text == "self.terminals":
                return [Opaque("T")]
            return super().iterate(v, node)

    def attrs(text):
        if text.startswith("self._") and text.count(".") == 1:
            return None                       # a fresh device: nothing remembered in private attributes
        return NotImplemented
    env = dict(module_constants(f.module.tree))
    env["self"] = Opaque("self")
    m = _M(env, attrs, follow_private_methods(D), fuel=16, undecided=lambda t: None)
    m.self_state, m.trace = {}, RunTrace({})
    kind, val = m.run_function(f.node)
    if kind != "return":
        raise AnalysisError(f"Device.terminal_info raises {val} in the model")
    while isinstance(val, Opaque) and val.parts and val.parts[0] == "call" and val.parts[1] in ("tuple", "list", "sorted") and val.parts[2]:
        val = val.parts[2][0]                # the order of the terminals is not what is read here
    items = list(val) if isinstance(val, (list, tuple)) else None
    if not items or len(items) != 1:
        raise AnalysisError(f"Device.terminal_info does not return one TerminalInfo per terminal in the model ({render(val)[:80]})")
    ti = items[0]
    if isinstance(ti, Record):
        return {k: render(v) for k, v in ti.values.items()}
    if isinstance(ti, Opaque) and ti.parts and ti.parts[0] == "call" and ti.parts[1].split(".")[-1] == "TerminalInfo":
        C = repo.cls(DEVICE, "TerminalInfo")
        import ast as _ast
        names = [s.target.id for s in C.node.body if isinstance(s, _ast.AnnAssign)]
        out = dict(zip(names, (render(a) for a in ti.parts[2])))
        out.update({k: render(v) for k, v in ti.parts[3].items()})
        return out
    raise AnalysisError(f"Device.terminal_info returns {render(ti)[:80]} per terminal in the model")


def symbolic_text(t: str) -> str:
    """rendered value of the machine as compact source-like text: `(a Mult b)` -> `(a*b)`, no blanks"""
    for name, sym in (("Mult", "*"), ("Add", "+"), ("Sub", "-"), ("Div", "/"), ("Pow", "**"), ("MatMult", "@")):
        t = t.replace(f" {name} ", sym)
    return t.replace(" ", "")
