"""Small def-use helpers over one function body (names only, no aliasing)."""
from __future__ import annotations

import ast
import copy
from typing import Dict, List, Optional, Tuple

from .cfg import guards_of, parent_map
from .src import own_nodes


def assignments(fn: ast.AST) -> Dict[str, List[Tuple[ast.stmt, Optional[ast.expr]]]]:
    """name -> [(stmt, value expr or None when not a plain single-target assignment)]"""
    out: Dict[str, List[Tuple[ast.stmt, Optional[ast.expr]]]] = {}

    def add(name, stmt, val):
        out.setdefault(name, []).append((stmt, val))

    def targets(t, stmt, val):
        if isinstance(t, ast.Name):
            add(t.id, stmt, val)
        elif isinstance(t, (ast.Tuple, ast.List)):
            if isinstance(val, (ast.Tuple, ast.List)) and len(val.elts) == len(t.elts):
                for tt, vv in zip(t.elts, val.elts):
                    targets(tt, stmt, vv)
            else:
                for i, tt in enumerate(t.elts):
                    if isinstance(tt, ast.Starred):
                        targets(tt.value, stmt, None)
                    else:
                        sub = None
                        if val is not None:
                            sub = ast.Subscript(value=val, slice=ast.Constant(value=i), ctx=ast.Load())
                        targets(tt, stmt, sub)

    for n in own_nodes(fn):
        if isinstance(n, ast.Assign):
            for t in n.targets:
                targets(t, n, n.value)
        elif isinstance(n, ast.AnnAssign) and n.value is not None:
            targets(n.target, n, n.value)
        elif isinstance(n, ast.AugAssign):
            targets(n.target, n, None)
        elif isinstance(n, (ast.For,)):
            targets(n.target, n, None)
        elif isinstance(n, ast.With):
            for it in n.items:
                if it.optional_vars is not None:
                    targets(it.optional_vars, n, None)
        elif isinstance(n, ast.NamedExpr):
            targets(n.target, n, n.value)
    return out


def self_attr_assignments(fn: ast.AST, recv="self"):
    out: Dict[str, List[Tuple[ast.stmt, Optional[ast.expr]]]] = {}
    for n in own_nodes(fn):
        if isinstance(n, (ast.Assign, ast.AnnAssign, ast.AugAssign)):
            tg = n.targets if isinstance(n, ast.Assign) else [n.target]
            val = getattr(n, "value", None) if not isinstance(n, ast.AugAssign) else None
            for t in tg:
                ts = t.elts if isinstance(t, (ast.Tuple, ast.List)) else [t]
                for x in ts:
                    if isinstance(x, ast.Attribute) and isinstance(x.value, ast.Name) and x.value.id == recv:
                        out.setdefault(x.attr, []).append((n, val if len(ts) == 1 else None))
    return out


class _Subst(ast.NodeTransformer):
    def __init__(self, mapping):
        self.mapping = mapping

    def visit_Name(self, node):
        if isinstance(node.ctx, ast.Load) and node.id in self.mapping:
            return copy.deepcopy(self.mapping[node.id])
        return node


def expand(fn: ast.AST, expr: ast.expr, depth=6, stop=()) -> ast.expr:
    """Inline names that have exactly one plain assignment in `fn` (recursively)."""
    asg = assignments(fn)
    params = {a.arg for a in fn.args.args + fn.args.kwonlyargs + fn.args.posonlyargs}
    e = copy.deepcopy(expr)
    for _ in range(depth):
        names = {n.id for n in ast.walk(e) if isinstance(n, ast.Name) and isinstance(n.ctx, ast.Load)}
        # names bound inside the expression itself (comprehension variables, lambda parameters, walrus targets) are not locals
        bound = {t.id for c in ast.walk(e) if isinstance(c, ast.comprehension) for t in ast.walk(c.target) if isinstance(t, ast.Name)}
        bound |= {a.arg for l in ast.walk(e) if isinstance(l, ast.Lambda) for a in l.args.args + l.args.kwonlyargs}
        mp = {}
        for nm in names:
            if nm in stop or nm in params or nm in bound:
                continue
            ds = asg.get(nm, [])
            if len(ds) == 1 and ds[0][1] is not None:
                mp[nm] = ds[0][1]
        if not mp:
            break
        e = _Subst(mp).visit(e)
    return ast.fix_missing_locations(e)


def expanded_text(fn, expr, **kw) -> str:
    return ast.unparse(expand(fn, expr, **kw))


def guard_text(fn, stmt, pm=None) -> List[str]:
    out = []
    for g, br in guards_of(fn, stmt, pm):
        if isinstance(g, ast.If):
            out.append(("" if br == "true" else "not ") + f"({ast.unparse(g.test)})")
        elif isinstance(g, (ast.For, ast.While)):
            out.append(f"in-loop L{g.lineno}")
    return out


def stmt_of(node: ast.AST, pm) -> ast.stmt:
    while not isinstance(node, ast.stmt):
        node = pm[id(node)][0]
    return node


class _SortMult(ast.NodeTransformer):
    def visit_BinOp(self, node):
        self.generic_visit(node)
        if isinstance(node.op, ast.Mult) and ast.unparse(node.left) > ast.unparse(node.right):
            node.left, node.right = node.right, node.left
        return node


def canon_text(text: str) -> str:
    """Canonical spelling of an expression: operands of every product sorted (a*b == b*a exactly)."""
    try:
        tree = ast.parse(text, mode="eval")
    except SyntaxError:
        return text
    return ast.unparse(_SortMult().visit(tree)).replace(" ", "")


def reaching_values(fn: ast.AST, name: str, at: ast.stmt, cfg=None) -> List[Optional[ast.expr]]:
    """Values (None = not a plain assignment) of the definitions of local `name` that reach statement `at` on some path."""
    from .cfg import build_cfg
    cfg = cfg or build_cfg(fn)
    defs = assignments(fn).get(name, [])
    try:
        target = cfg.node_of(at).id
    except Exception:
        return [v for _, v in defs]
    ids = []
    for st, v in defs:
        try:
            ids.append((cfg.node_of(st).id, v))
        except Exception:
            ids.append((None, v))
    out = []
    for nid, v in ids:
        if nid is None:
            out.append(v)
            continue
        others = {i for i, _ in ids if i is not None and i != nid and i != target}     # the use in `x = f(x)` precedes that definition
        if nid == target:
            # `x = f(x)` reaches its own right-hand side only around a loop
            start = [s for s, _ in cfg.succ[nid]]
        start = [s for s, _ in cfg.succ[nid]]
        if any(s == target or cfg.path(s, target, skip=others, skip_edges=("exc",)) is not None for s in start if s not in others):
            out.append(v)
    return out


def guard_text_x(fn, stmt, pm=None, stop=()) -> List[str]:
    """guard_text with every test expanded through single definitions (independent of the names of alias locals)."""
    out = []
    for g, br in guards_of(fn, stmt, pm):
        if isinstance(g, ast.If):
            out.append(("" if br == "true" else "not ") + f"({ast.unparse(expand(fn, g.test, stop=stop))})")
        elif isinstance(g, (ast.For, ast.While)):
            out.append(f"in-loop L{g.lineno}")
    return out


def local_stored_in_attr(fn, attr: str, recv="self") -> Optional[str]:
    """Name of the local that is stored into `recv.attr` by a plain assignment (`self.psi_init = psi_init`)."""
    for n in own_nodes(fn):
        if isinstance(n, ast.Assign) and isinstance(n.value, ast.Name):
            for t in n.targets:
                if isinstance(t, ast.Attribute) and t.attr == attr and isinstance(t.value, ast.Name) and t.value.id == recv:
                    return n.value.id
    return None


def canon_bound_text(fn: ast.AST, node: ast.expr, pm=None) -> str:
    """Text of `node` with bound variables named by what they range over (`each(<iterable>)`) and the remaining locals of the
    function numbered in order of appearance (`L0`, `L1` ...): equal for alpha-equivalent spellings."""
    pm = pm or parent_map(fn)
    mp: Dict[str, str] = {}
    # enclosing for loops
    cur = node
    while id(cur) in pm:
        par = pm[id(cur)][0]
        if isinstance(par, (ast.For, ast.AsyncFor)) and isinstance(par.target, ast.Name) and cur is not par.iter:
            mp.setdefault(par.target.id, f"each({ast.unparse(par.iter)})")
        cur = par
    # comprehension variables inside the node
    for c in ast.walk(node):
        if isinstance(c, (ast.ListComp, ast.SetComp, ast.GeneratorExp, ast.DictComp)):
            for g in c.generators:
                if isinstance(g.target, ast.Name):
                    mp[g.target.id] = f"each({ast.unparse(g.iter)})"
    params = {a.arg for a in fn.args.args + fn.args.kwonlyargs + fn.args.posonlyargs} if hasattr(fn, "args") else set()
    local = set(assignments(fn)) - params
    k = 0
    e = copy.deepcopy(node)
    import re as _re
    for x in ast.walk(e):
        if isinstance(x, ast.Name):
            # the copy of a parameter made when a helper is read at its call site (`p__h3 = p`) is the parameter
            m_ = _re.fullmatch(r"(.+)__h\d+", x.id)
            if m_ and m_.group(1) in params:
                x.id = m_.group(1)
            if x.id in mp:
                x.id = mp[x.id]
            elif x.id in local:
                mp[x.id] = f"L{k}"
                k += 1
                x.id = mp[x.id]
    return ast.unparse(e)


def expand_at(fn: ast.AST, expr: ast.expr, at: ast.stmt, depth: int = 8, _cfg=None) -> ast.expr:
    """Backward substitution along reaching definitions: every local in `expr` that has exactly one reaching plain definition
    at statement `at` is replaced by that definition's value, itself expanded at its own statement (handles a name that is
    rebound several times in straight-line code, unlike `expand`)."""
    from .cfg import build_cfg
    cfg = _cfg or build_cfg(fn)
    params = {a.arg for a in fn.args.args + fn.args.kwonlyargs + fn.args.posonlyargs} if hasattr(fn, "args") else set()
    if depth <= 0:
        return expr
    e = copy.deepcopy(expr)
    mp = {}
    bound = {t.id for c in ast.walk(e) if isinstance(c, ast.comprehension) for t in ast.walk(c.target) if isinstance(t, ast.Name)}
    bound |= {a.arg for l in ast.walk(e) if isinstance(l, ast.Lambda) for a in l.args.args + l.args.kwonlyargs}
    for n in ast.walk(e):
        if isinstance(n, ast.Name) and isinstance(n.ctx, ast.Load) and n.id not in mp and n.id not in bound:
            vals = reaching_values(fn, n.id, at, cfg)
            if len(vals) == 1 and vals[0] is not None:
                v = vals[0]
                st = next((s_ for s_ in ast.walk(fn) if isinstance(s_, (ast.Assign, ast.AnnAssign)) and s_.value is v), None)
                if st is not None and st is not at:
                    mp[n.id] = expand_at(fn, v, st, depth - 1, cfg)
    if not mp:
        return e
    return ast.fix_missing_locations(_Subst(mp).visit(e))


_NEG = {ast.Lt: ast.GtE, ast.LtE: ast.Gt, ast.Gt: ast.LtE, ast.GtE: ast.Lt, ast.Eq: ast.NotEq, ast.NotEq: ast.Eq, ast.Is: ast.IsNot,
        ast.IsNot: ast.Is, ast.In: ast.NotIn, ast.NotIn: ast.In}


def negate(test: ast.expr) -> ast.expr:
    """The negation of a test, pushed inwards (comparison operators flipped, De Morgan), in canonical spelling."""
    import copy
    from .src import _CanonCompare
    t = test
    if isinstance(t, ast.UnaryOp) and isinstance(t.op, ast.Not):
        return copy.deepcopy(t.operand)
    if isinstance(t, ast.Compare) and len(t.ops) == 1:
        new = ast.Compare(left=copy.deepcopy(t.left), ops=[_NEG[type(t.ops[0])]()], comparators=[copy.deepcopy(t.comparators[0])])
        return _CanonCompare().visit(ast.fix_missing_locations(ast.copy_location(new, t)))
    if isinstance(t, ast.BoolOp):
        new = ast.BoolOp(op=ast.Or() if isinstance(t.op, ast.And) else ast.And(), values=[negate(v) for v in t.values])
        return ast.fix_missing_locations(ast.copy_location(new, t))
    return ast.fix_missing_locations(ast.copy_location(ast.UnaryOp(op=ast.Not(), operand=copy.deepcopy(t)), t))


def holds_text(fn, test: ast.expr, branch: bool, stop=()) -> str:
    """Text of the condition that holds on the given branch of `if test`, expanded through single definitions."""
    e = expand(fn, test, stop=stop)
    return ast.unparse(e if branch else negate(e))


def conditions_at(fn, node, pm=None, within=None, normal=True, stop=()) -> List[ast.expr]:
    """The tests that hold where `node` executes (outermost first), each in positive canonical form: the else-branch of `if c` and
    the code after the guard clause `if c: <exit>` both contribute `not c` with the negation pushed inwards.  `within` restricts
    to guards inside that statement (e.g. a loop)."""
    out = []
    inside = None if within is None else {id(x) for x in ast.walk(within)}
    for g, br in guards_of(fn, node, pm, normal=normal):
        if not isinstance(g, ast.If) or br not in ("true", "false"):
            continue
        g0 = getattr(g, "_orig", g)
        if inside is not None and id(g0) not in inside:
            continue
        e = expand(fn, g.test, stop=stop)
        out.append(e if br == "true" else negate(e))
    return out


def possible_callees(fn, call: ast.Call) -> set:
    """Names of the functions a call may reach: `f(...)` itself, or - when f is a local bound to a name, a conditional expression
    of names or a dict/tuple selection of names - each of those (`kernel = a if flag else b; kernel(...)`)."""
    f = call.func
    out = {ast.unparse(f)}
    if isinstance(f, ast.Name):
        todo = [v for _, v in assignments(fn).get(f.id, []) if v is not None]
        seen = 0
        while todo and seen < 32:
            seen += 1
            v = todo.pop()
            if isinstance(v, (ast.Name, ast.Attribute)):
                out.add(ast.unparse(v))
            elif isinstance(v, ast.IfExp):
                todo += [v.body, v.orelse]
            elif isinstance(v, ast.BoolOp):
                todo += list(v.values)
            elif isinstance(v, ast.Subscript) and isinstance(v.value, (ast.Dict, ast.Tuple, ast.List)):
                todo += list(v.value.values if isinstance(v.value, ast.Dict) else v.value.elts)
    return out


def reaching_defs(fn: ast.AST, name: str, at: ast.stmt, cfg=None) -> List[Tuple[ast.stmt, Optional[ast.expr]]]:
    """Like reaching_values, with the defining statement: [(stmt, value or None)] of the definitions of `name` that reach `at`."""
    from .cfg import build_cfg
    cfg = cfg or build_cfg(fn)
    defs = assignments(fn).get(name, [])
    try:
        target = cfg.node_of(at).id
    except Exception:
        return list(defs)
    ids = []
    for st, v in defs:
        try:
            ids.append((cfg.node_of(st).id, st, v))
        except Exception:
            ids.append((None, st, v))
    out = []
    for nid, st, v in ids:
        if nid is None:
            out.append((st, v))
            continue
        others = {i for i, _, _ in ids if i is not None and i != nid and i != target}
        start = [s_ for s_, _ in cfg.succ[nid]]
        if any(s_ == target or cfg.path(s_, target, skip=others, skip_edges=("exc",)) is not None for s_ in start if s_ not in others):
            out.append((st, v))
    return out


def expansions(fn: ast.AST, expr: ast.expr, at: ast.stmt, limit: int = 12, depth: int = 8, _cfg=None) -> List[ast.expr]:
    """All ways of reading `expr` at statement `at` back to the function's inputs: like expand_at, but a local with several
    reaching definitions (an if/else that binds it in both arms) yields one expansion per definition (at most `limit`)."""
    from .cfg import build_cfg
    cfg = _cfg or build_cfg(fn)
    if depth <= 0:
        return [expr]
    bound = {t.id for c in ast.walk(expr) if isinstance(c, ast.comprehension) for t in ast.walk(c.target) if isinstance(t, ast.Name)}
    bound |= {a.arg for l in ast.walk(expr) if isinstance(l, ast.Lambda) for a in l.args.args + l.args.kwonlyargs}
    names = []
    for n in ast.walk(expr):
        if isinstance(n, ast.Name) and isinstance(n.ctx, ast.Load) and n.id not in bound and n.id not in names:
            names.append(n.id)
    options: Dict[str, List[ast.expr]] = {}
    for nm in names:
        defs = [(st, v) for st, v in reaching_defs(fn, nm, at, cfg) if v is not None and st is not at]
        if not defs or len(defs) != len(reaching_defs(fn, nm, at, cfg)):
            continue
        outs = []
        for st, v in defs:
            outs += expansions(fn, v, st, limit, depth - 1, cfg)
        options[nm] = outs[:limit]
    if not options:
        return [copy.deepcopy(expr)]
    results = [dict()]
    for nm, outs in options.items():
        results = [dict(r, **{nm: o}) for r in results for o in outs][:limit]
    return [ast.fix_missing_locations(_Subst(r).visit(copy.deepcopy(expr))) for r in results]
