"""Abstract models of the runtime objects the numerical code receives.

The *names* used here (``mesh.edge_mesh.dual_edge_lengths`` ...) are the
attribute names of ``Mesh``/``EdgeMesh``; each is checked to exist as an
attribute assigned in the corresponding ``__init__`` so that a renamed
attribute is an analysis error, not a silently vacuous rule.
"""
from __future__ import annotations

import ast

from .alg import AtomTable
from .interp import Field, Idx, Interp, Obj
from .src import AnalysisError, Repo

FV = "tdgl.finite_volume"


def _init_attrs(repo: Repo, mod: str, cls: str):
    c = repo.cls(mod, cls)
    init = repo.method(c, "__init__")
    out = set()
    for n in ast.walk(init.node):
        if isinstance(n, ast.Attribute) and isinstance(n.value, ast.Name) and n.value.id == "self" \
                and isinstance(n.ctx, ast.Store):
            out.add(n.attr)
    return out


def mesh_model(repo: Repo, ip: Interp) -> Obj:
    """mesh: sites (n,2), areas (n,), edge_mesh{edges (m,2), directions (m,2),
    edge_lengths, dual_edge_lengths, boundary_edge_indices, centers}."""
    em_attrs = _init_attrs(repo, f"{FV}.edge_mesh", "EdgeMesh")
    need_em = {"edges", "directions", "edge_lengths", "dual_edge_lengths",
               "boundary_edge_indices", "centers", "normalized_directions"}
    if not need_em <= em_attrs:
        raise AnalysisError(f"EdgeMesh no longer defines {sorted(need_em - em_attrs)}")
    m_attrs = _init_attrs(repo, f"{FV}.mesh", "Mesh")
    need_m = {"sites", "areas", "edge_mesh", "boundary_indices", "elements"}
    if not need_m <= m_attrs:
        raise AnalysisError(f"Mesh no longer defines {sorted(need_m - m_attrs)}")
    em = Obj(repo.cls(f"{FV}.edge_mesh", "EdgeMesh"), {
        "edges": Field("e", "edge", kind="index", comps=2),
        "directions": Field("dir", "edge", comps=2),
        "normalized_directions": Field("ndir", "edge", comps=2),
        "edge_lengths": Field("l", "edge", sign="pos"),
        "dual_edge_lengths": Field("s", "edge", sign="pos"),
        "boundary_edge_indices": Idx("bidx", "bedge", "edge"),
        "centers": Field("ctr", "edge", comps=2),
    }, label="edge_mesh")
    areas = Field("areas", "site", sign="pos")
    sites = Field("sites", "site", comps=2)
    ip.site_fields["areas"] = areas
    mesh = Obj(repo.cls(f"{FV}.mesh", "Mesh"), {
        "edge_mesh": em, "areas": areas, "sites": sites,
        "boundary_indices": Idx("bsites", "bsite", "site"),
    }, label="mesh")
    return mesh


def new_interp(repo: Repo):
    T = AtomTable()
    ip = Interp(repo, T)

    def generic_any(ip_, a, k):
        # a symbolic field stands for a generic (not identically zero) array; the all-zero special case is C10's business
        from .interp import Cols, Field, Unsupported, Vec2
        if a and isinstance(a[0], (Field, Vec2, Cols)):
            return True
        raise Unsupported("numpy.any of a non-field value")
    ip.ext_overrides["numpy.any"] = generic_any
    # two symbolic arrays are equal (and close) exactly when they are the same symbol: generic potentials differ by more than
    # any tolerance; the within-tolerance case is explored by C10
    same = lambda ip_, a, k: repr(a[0]) == repr(a[1])
    for nm in ("array_equal", "array_equiv", "allclose"):
        ip.ext_overrides[f"numpy.{nm}"] = same
    return T, ip


def options_model(repo: Repo, T, **overrides) -> Obj:
    """SolverOptions with every dataclass field bound to a symbol of the same name."""
    c = repo.cls("tdgl.solver.options", "SolverOptions")
    attrs = {}
    for st in c.node.body:
        if isinstance(st, ast.AnnAssign) and isinstance(st.target, ast.Name):
            nm = st.target.id
            ann = ast.unparse(st.annotation)
            if ann == "bool":
                attrs[nm] = False
            elif "str" in ann:
                attrs[nm] = None
            else:
                attrs[nm] = T.real(nm)
    attrs.update(overrides)
    return Obj(c, attrs, label="options")
