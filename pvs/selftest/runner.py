"""Thorough tier: validates the checkers themselves on the *current* tree.

For every property a corpus of source edits is applied, one at a time, to a
scratch copy of /repo (tempfile.mkdtemp, removed as soon as the variant is
judged): `break` edits must make the check report a violation, `equiv` edits
(behaviour preserving refactorings) must leave it silent.  An edit whose
anchor text is no longer present is skipped and counted.  A surviving `break`
or an alarmed `equiv` makes the thorough run fail as analysis-broken (exit 2):
it says the checker is wrong, not the repository.
"""
from __future__ import annotations

import ast
import importlib
import json
import os
import shutil
import tempfile
from concurrent.futures import ProcessPoolExecutor
from pathlib import Path

from ..src import AnalysisError, repo_root


def _apply(root: Path, edits):
    from . import transforms
    for file, old, new in edits:
        if old == "@patch":
            import subprocess
            r = subprocess.run(["git", "apply", "--include=tdgl/*", new], cwd=root, capture_output=True, text=True)
            if r.returncode != 0:
                r = subprocess.run(["patch", "-p1", "-s", "-f", "-i", new], cwd=root, capture_output=True, text=True)
                if r.returncode != 0:
                    return f"skipped: patch {Path(new).name} does not apply to the current tree"
            for q in (root / "tdgl").rglob("*.py"):
                try:
                    ast.parse(q.read_text())
                except SyntaxError as e:
                    return f"skipped: patched file does not parse ({e})"
            continue
        p = root / "tdgl" / file
        s = p.read_text()
        if old == "@rename_locals":
            s2 = transforms.rename_locals(s, new)
            if s2 is None:
                return f"skipped: function {new} not found / no locals"
            p.write_text(s2)
            continue
        if old == "@commute_mult":
            s2 = transforms.commute_mult(s, new)
            if s2 is None:
                return f"skipped: function {new} not found / no products"
            p.write_text(s2)
            continue
        if old == "@reformat":
            p.write_text(transforms.reformat(s))
            continue
        if old in ("@rename_all", "@commute_all", "@swapcmp_all", "@flipif_all", "@tempret_all", "@tempattr_all", "@inline_all"):
            # every function of the file at once
            tree = ast.parse(s)
            quals = []

            def rec(body, pre):
                for n in body:
                    if isinstance(n, ast.FunctionDef):
                        quals.append(pre + n.name)
                    elif isinstance(n, ast.ClassDef):
                        rec(n.body, pre + n.name + ".")
            rec(tree.body, "")
            done = 0
            for q in quals:
                s2 = {"@rename_all": transforms.rename_locals, "@commute_all": transforms.commute_mult,
                      "@swapcmp_all": transforms.swap_compare, "@flipif_all": transforms.flip_if,
                      "@tempret_all": transforms.temp_return, "@tempattr_all": transforms.temp_attr_store,
                      "@inline_all": transforms.inline_alias}[old](s, q)
                if s2 is not None:
                    s = s2
                    done += 1
            if not done:
                return f"skipped: nothing to transform in {file}"
            p.write_text(s)
            continue
        if old not in s:
            return "skipped: anchor text not found in " + file
        s2 = s.replace(old, new, 1)
        try:
            ast.parse(s2)
        except SyntaxError as e:
            return f"skipped: edit does not parse ({e})"
        p.write_text(s2)
    return None


def _judge(args):
    prop, idx, variant, src_root = args
    tmp = Path(tempfile.mkdtemp(prefix="pvs_st_"))
    try:
        shutil.copytree(Path(src_root) / "tdgl", tmp / "tdgl", ignore=shutil.ignore_patterns("__pycache__", "test"))
        if (Path(src_root) / "docs" / "background.rst").exists():
            (tmp / "docs").mkdir()
            shutil.copy(Path(src_root) / "docs" / "background.rst", tmp / "docs" / "background.rst")
        edits = variant["edits"]
        why = _apply(tmp, edits)
        if why:
            return dict(idx=idx, outcome="skipped", detail=why)
        os.environ["PVS_REPO"] = str(tmp)
        from ..report import Ctx, load_known
        from ..src import Repo
        mod = importlib.import_module(f"pvs.props.{prop.lower()}")
        try:
            ctx = Ctx(prop, "thorough", repo=Repo(tmp))
            mod.check(ctx)
            if not ctx.findings:
                ctx.check_floors()
            known = {k["key"] for k in load_known().get("known", [])}
            new = [f for f in ctx.findings if f.key not in known]
            return dict(idx=idx, outcome="alarm" if new else "silent",
                        detail=[f"{f.rule} {f.where}: {f.message[:140]}" for f in new[:3]], rules=sorted({f.rule for f in new}))
        except AnalysisError as e:
            return dict(idx=idx, outcome="analysis-error", detail=str(e)[:300])
        except Exception as e:
            return dict(idx=idx, outcome="analysis-error", detail=f"internal {type(e).__name__}: {e}"[:300])
    finally:
        shutil.rmtree(tmp, ignore_errors=True)
        os.environ.pop("PVS_REPO", None)


def run_for(ctx):
    from .corpus import CORPUS
    prop = ctx.prop
    variants = CORPUS.get(prop, [])
    src_root = str(repo_root())
    jobs = [(prop, i, v, src_root) for i, v in enumerate(variants)]
    results = []
    if jobs:
        with ProcessPoolExecutor(max_workers=min(16, len(jobs))) as ex:
            results = list(ex.map(_judge, jobs))
    stats = {"break": {"generated": 0, "killed": 0, "survived": 0, "skipped": 0, "analysis_error": 0},
             "equiv": {"generated": 0, "tolerated": 0, "alarmed": 0, "skipped": 0, "analysis_error": 0}}
    broken = []
    table = []
    for v, r in zip(variants, results):
        kind = v["kind"]
        st = stats[kind]
        st["generated"] += 1
        o = r["outcome"]
        row = {"kind": kind, "note": v["note"], "outcome": o, "detail": r.get("detail"), "expect_rule": v.get("rule")}
        table.append(row)
        if o == "skipped":
            st["skipped"] += 1
            continue
        if kind == "break":
            if o == "alarm":
                st["killed"] += 1
                if v.get("rule") and v["rule"] not in r.get("rules", []):
                    row["note"] += f" (killed by {r.get('rules')}, expected {v['rule']})"
            elif o == "analysis-error":
                # fail-closed is acceptable for a breaking edit but is recorded separately
                st["analysis_error"] += 1
            else:
                st["survived"] += 1
                broken.append(f"breaking variant not detected: {v['note']}")
        else:
            if o == "silent":
                st["tolerated"] += 1
            elif o == "alarm":
                st["alarmed"] += 1
                broken.append(f"equivalent variant raised an alarm: {v['note']}: {r.get('detail')}")
            else:
                st["analysis_error"] += 1
                broken.append(f"equivalent variant is outside the supported fragment: {v['note']}: {r.get('detail')}")
    ctx.extra["selftest"] = {"stats": stats, "variants": table}
    ctx.extra["selftest_rule"] = ("checker validation on scratch copies of the current tree: `break` edits must alarm, `equiv` edits must "
                                  "stay silent; skipped = anchor text no longer present")
    for row in table:
        ctx.obligations.append({"rule": "SELFTEST", "instance": f"{row['kind']}: {row['note']}", "held": row["outcome"] in
                                (("alarm", "analysis-error", "skipped") if row["kind"] == "break" else ("silent", "skipped")),
                                "nontrivial": row["outcome"] != "skipped", "detail": row["detail"]})
    if broken:
        raise AnalysisError("checker self-validation failed: " + " | ".join(broken[:4]))
