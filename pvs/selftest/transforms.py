"""AST-computed behaviour-preserving transformations used by the self-validation."""
from __future__ import annotations

import ast
import builtins


def _func(tree: ast.Module, qual: str):
    parts = qual.split(".")
    body = tree.body
    node = None
    for p in parts:
        found = None
        stack = list(body)
        while stack:
            n = stack.pop(0)
            if isinstance(n, (ast.FunctionDef, ast.ClassDef)) and n.name == p:
                found = n
                break
            if isinstance(n, (ast.If, ast.Try)):
                for fld in ("body", "orelse", "finalbody"):
                    stack.extend(getattr(n, fld, []) or [])
        if found is None:
            return None
        node = found
        body = found.body
    return node


def rename_locals(src: str, qual: str, suffix="_rn") -> str:
    """Rename every local variable of function `qual` (not its parameters) consistently."""
    tree = ast.parse(src)
    fn = _func(tree, qual)
    if fn is None or not isinstance(fn, ast.FunctionDef):
        return None
    params = set()
    for n in ast.walk(fn):
        if isinstance(n, (ast.FunctionDef, ast.Lambda)):
            a = n.args
            for x in a.args + a.kwonlyargs + a.posonlyargs:
                params.add(x.arg)
            if a.vararg:
                params.add(a.vararg.arg)
            if a.kwarg:
                params.add(a.kwarg.arg)
    nested_defs = {n.name for n in ast.walk(fn) if isinstance(n, (ast.FunctionDef, ast.ClassDef)) and n is not fn}
    locals_ = set()
    for n in ast.walk(fn):
        if isinstance(n, ast.Name) and isinstance(n.ctx, ast.Store):
            locals_.add(n.id)
    for n in ast.walk(fn):
        if isinstance(n, (ast.Global, ast.Nonlocal)):
            locals_ -= set(n.names)
    locals_ -= params
    locals_ -= nested_defs
    locals_ -= set(dir(builtins))
    if not locals_:
        return None
    for n in ast.walk(fn):
        if isinstance(n, ast.Name) and n.id in locals_:
            n.id = n.id + suffix
    return ast.unparse(tree)


def reformat(src: str) -> str:
    """Round trip through ast.unparse: all comments dropped, every line moved."""
    return ast.unparse(ast.parse(src))


class _Commute(ast.NodeTransformer):
    def visit_BinOp(self, node):
        self.generic_visit(node)
        if isinstance(node.op, ast.Mult):
            node.left, node.right = node.right, node.left
        return node


def commute_mult(src: str, qual: str) -> str:
    """Swap the operands of every `*` in function `qual` (exactly value preserving for numbers and arrays)."""
    tree = ast.parse(src)
    fn = _func(tree, qual)
    if fn is None:
        return None
    n = sum(1 for x in ast.walk(fn) if isinstance(x, ast.BinOp) and isinstance(x.op, ast.Mult))
    if not n:
        return None
    _Commute().visit(fn)
    return ast.unparse(ast.fix_missing_locations(tree))


_MIRROR = {ast.Lt: ast.Gt, ast.Gt: ast.Lt, ast.LtE: ast.GtE, ast.GtE: ast.LtE, ast.Eq: ast.Eq, ast.NotEq: ast.NotEq}


class _SwapCompare(ast.NodeTransformer):
    def __init__(self):
        self.n = 0

    def visit_Compare(self, node):
        self.generic_visit(node)
        if len(node.ops) == 1 and type(node.ops[0]) in _MIRROR:
            # `x is None`-style tests and chained comparisons are left alone
            node.left, node.comparators[0] = node.comparators[0], node.left
            node.ops = [_MIRROR[type(node.ops[0])]()]
            self.n += 1
        return node


def swap_compare(src: str, qual: str) -> str:
    """`a < b` -> `b > a`, `a == b` -> `b == a` ... in function `qual` (operands are pure expressions in this code base)."""
    tree = ast.parse(src)
    fn = _func(tree, qual)
    if fn is None:
        return None
    t = _SwapCompare()
    t.visit(fn)
    if not t.n:
        return None
    return ast.unparse(ast.fix_missing_locations(tree))


class _FlipIf(ast.NodeTransformer):
    def __init__(self):
        self.n = 0

    def visit_If(self, node):
        self.generic_visit(node)
        if node.orelse and not (len(node.orelse) == 1 and isinstance(node.orelse[0], ast.If)):
            node.test = ast.UnaryOp(op=ast.Not(), operand=node.test)
            node.body, node.orelse = node.orelse, node.body
            self.n += 1
        return node

    def visit_IfExp(self, node):
        self.generic_visit(node)
        node.test = ast.UnaryOp(op=ast.Not(), operand=node.test)
        node.body, node.orelse = node.orelse, node.body
        self.n += 1
        return node


def flip_if(src: str, qual: str) -> str:
    """`if c: A else: B` -> `if not c: B else: A` (also conditional expressions) in function `qual`."""
    tree = ast.parse(src)
    fn = _func(tree, qual)
    if fn is None:
        return None
    t = _FlipIf()
    t.visit(fn)
    if not t.n:
        return None
    return ast.unparse(ast.fix_missing_locations(tree))


class _TempReturn(ast.NodeTransformer):
    def __init__(self):
        self.n = 0

    def _block(self, stmts):
        out = []
        for st in stmts:
            if isinstance(st, ast.Return) and st.value is not None and not isinstance(st.value, (ast.Name, ast.Constant)):
                self.n += 1
                name = f"_ret{self.n}"
                out.append(ast.Assign(targets=[ast.Name(id=name, ctx=ast.Store())], value=st.value, lineno=st.lineno, col_offset=st.col_offset))
                out.append(ast.Return(value=ast.Name(id=name, ctx=ast.Load()), lineno=st.lineno, col_offset=st.col_offset))
            else:
                out.append(st)
        return out

    def generic_visit(self, node):
        super().generic_visit(node)
        if isinstance(node, ast.Lambda):
            return node
        for fld in ("body", "orelse", "finalbody"):
            v = getattr(node, fld, None)
            if isinstance(v, list) and v and isinstance(v[0], ast.stmt):
                setattr(node, fld, self._block(v))
        if isinstance(node, ast.Try):
            for h in node.handlers:
                h.body = self._block(h.body)
        return node


def temp_return(src: str, qual: str) -> str:
    """`return <expr>` -> `_retN = <expr>; return _retN` in function `qual` (not inside nested lambdas)."""
    tree = ast.parse(src)
    fn = _func(tree, qual)
    if fn is None:
        return None
    if any(isinstance(d, ast.Name) and d.id in ("njit",) or "jit" in ast.unparse(d) for d in fn.decorator_list):
        return None
    t = _TempReturn()
    t.generic_visit(fn)
    if not t.n:
        return None
    return ast.unparse(ast.fix_missing_locations(tree))


class _TempAttrStore(ast.NodeTransformer):
    def __init__(self):
        self.n = 0

    def _block(self, stmts):
        out = []
        for st in stmts:
            if isinstance(st, ast.Assign) and len(st.targets) == 1 and isinstance(st.targets[0], ast.Attribute) \
                    and isinstance(st.targets[0].value, ast.Name) and st.targets[0].value.id == "self" \
                    and not isinstance(st.value, (ast.Name, ast.Constant, ast.Lambda)):
                self.n += 1
                name = f"_val{self.n}"
                out.append(ast.Assign(targets=[ast.Name(id=name, ctx=ast.Store())], value=st.value, lineno=st.lineno, col_offset=st.col_offset))
                out.append(ast.Assign(targets=st.targets, value=ast.Name(id=name, ctx=ast.Load()), lineno=st.lineno, col_offset=st.col_offset))
            else:
                out.append(st)
        return out

    def generic_visit(self, node):
        super().generic_visit(node)
        for fld in ("body", "orelse", "finalbody"):
            v = getattr(node, fld, None)
            if isinstance(v, list) and v and isinstance(v[0], ast.stmt):
                setattr(node, fld, self._block(v))
        return node


def temp_attr_store(src: str, qual: str) -> str:
    """`self.x = <expr>` -> `_valN = <expr>; self.x = _valN` in function `qual`."""
    tree = ast.parse(src)
    fn = _func(tree, qual)
    if fn is None:
        return None
    t = _TempAttrStore()
    t.generic_visit(fn)
    if not t.n:
        return None
    return ast.unparse(ast.fix_missing_locations(tree))


def inline_alias(src: str, qual: str) -> str:
    """Locals bound exactly once, at the top level of the function, to a pure attribute chain on `self` or a parameter
    (`options = self.options`, `mesh = self.device.mesh`) are replaced by that chain everywhere and the binding is dropped."""
    import copy
    tree = ast.parse(src)
    fn = _func(tree, qual)
    if fn is None or not isinstance(fn, ast.FunctionDef):
        return None
    params = {a.arg for a in fn.args.args + fn.args.kwonlyargs + fn.args.posonlyargs}
    stores = {}
    for n in ast.walk(fn):
        if isinstance(n, ast.Name) and isinstance(n.ctx, (ast.Store, ast.Del)):
            stores[n.id] = stores.get(n.id, 0) + 1
        if isinstance(n, (ast.FunctionDef, ast.Lambda)) and n is not fn:
            for a in n.args.args:
                stores[a.arg] = stores.get(a.arg, 0) + 2

    def pure_chain(e):
        while isinstance(e, ast.Attribute):
            e = e.value
        return isinstance(e, ast.Name) and (e.id == "self" or e.id in params)
    mapping = {}
    keep = []
    for st in fn.body:
        if isinstance(st, ast.Assign) and len(st.targets) == 1 and isinstance(st.targets[0], ast.Name) and isinstance(st.value, ast.Attribute) \
                and pure_chain(st.value) and stores.get(st.targets[0].id, 0) == 1 and st.targets[0].id not in params:
            # the chain must not be rebound later in the function (self.options = ... / param = ...)
            root = st.value
            while isinstance(root, ast.Attribute):
                root = root.value
            rebound = any(isinstance(x, ast.Attribute) and isinstance(x.ctx, ast.Store) and ast.unparse(x) == ast.unparse(st.value) for x in ast.walk(fn)) \
                or stores.get(root.id, 0) > 0
            if not rebound:
                mapping[st.targets[0].id] = st.value
                continue
        keep.append(st)
    if not mapping:
        return None

    class S(ast.NodeTransformer):
        def visit_Name(self, node):
            if isinstance(node.ctx, ast.Load) and node.id in mapping:
                return copy.deepcopy(mapping[node.id])
            return node
    # chains may mention other aliases (mesh = device.mesh after device = self.device): resolve to a fixpoint first
    for _ in range(4):
        for k in list(mapping):
            mapping[k] = S().visit(copy.deepcopy(mapping[k]))
    fn.body = keep or [ast.Pass()]
    S().visit(fn)
    return ast.unparse(ast.fix_missing_locations(tree))
