"""Edit corpora for the checker self-validation (thorough tier).

Each variant is one or more exact-text replacements on the *current* tree.
`break`: a realistic defect that keeps the code importable (the rule named in
`rule` is the one expected to fire).  `equiv`: a behaviour-preserving
refactoring on which the check must stay silent.
"""

OPS = "finite_volume/operators.py"
SOLVER = "solver/solver.py"
RUNNER = "solver/runner.py"
PARAM = "parameter.py"
SOLN = "solution/solution.py"
DATA = "solution/data.py"
EM = "em.py"
UTIL = "finite_volume/util.py"
EMESH = "finite_volume/edge_mesh.py"
DEVICE = "device/device.py"
POLY = "device/polygon.py"
OPTIONS = "solver/options.py"
SCREEN = "solver/screening.py"
DIST = "distance.py"
CONST = "sources/constant.py"
MESH = "finite_volume/mesh.py"
LAYER = "device/layer.py"


def B(note, rule, *edits):
    return {"kind": "break", "note": note, "rule": rule, "edits": [tuple(e) for e in edits]}


def E(note, *edits):
    return {"kind": "equiv", "note": note, "rule": None, "edits": [tuple(e) for e in edits]}


# frequently reused edits -------------------------------------------------------
DIV_SWAP_AREA = (OPS, "[weights / mesh.areas[edges0], -weights / mesh.areas[edges1]]",
                 "[weights / mesh.areas[edges0], -weights / mesh.areas[edges0]]")
LAP_NO_CONJ = (OPS, "weights * link_variable_weights.conjugate() / areas1,", "weights * link_variable_weights / areas1,")
DIV_REORDER = [(OPS, "rows = np.concatenate([edges0, edges1])\n    cols = np.concatenate([edge_indices, edge_indices])\n    values = np.concatenate(\n        [weights / mesh.areas[edges0], -weights / mesh.areas[edges1]]\n    )",
                "rows = np.concatenate([edges1, edges0])\n    cols = np.concatenate([edge_indices, edge_indices])\n    values = np.concatenate(\n        [-weights / mesh.areas[edges1], weights / mesh.areas[edges0]]\n    )")]
GRAD_COMMUTE = (OPS, "values = np.concatenate([link_variable_weights * weights, -weights])",
                "values = np.concatenate([weights * link_variable_weights, -1 * weights])")
LAP_ASSOC = (OPS, "            weights * link_variable_weights / areas0,\n            weights * link_variable_weights.conjugate() / areas1,",
             "            link_variable_weights * (weights / areas0),\n            (weights / areas1) * link_variable_weights.conjugate(),")
DIV_FMT = (OPS, "    return sp.csr_array(\n        (values, (rows, cols)), shape=(len(mesh.sites), len(edge_mesh.edges))\n    )",
           "    divergence = sp.csc_array(\n        (values, (rows, cols)), shape=(len(mesh.sites), len(edge_mesh.edges))\n    )\n    return divergence")

CORPUS = {
    "C01": [
        B("normal current gets +dA_dt", "R01.1", (SOLVER, "normal_current = -(operators.mu_gradient @ mu) - dA_dt", "normal_current = -(operators.mu_gradient @ mu) + dA_dt")),
        B("boundary flux enters rhs with +", "R01.1", (SOLVER, "rhs = (operators.divergence @ (supercurrent - dA_dt)) - (", "rhs = (operators.divergence @ (supercurrent - dA_dt)) + (")),
        B("dA_dt dropped from rhs", "R01.1", (SOLVER, "operators.divergence @ (supercurrent - dA_dt)", "operators.divergence @ supercurrent")),
        B("own terminal current instead of the others'", "R01.4", (SOLVER, "if name != terminal.name", "if name == terminal.name")),
        B("sign of the terminal density", "R01.4", (SOLVER, "current_density = (-1 / terminal.length) * sum(", "current_density = (1 / terminal.length) * sum(")),
        B("J_scale misses a length unit", "R01.5", (SOLVER, "J_scale = 4 * ((ureg(current_units) / length_units) / K0).to_base_units()", "J_scale = 4 * ((ureg(current_units) / length_units**2) / K0 * ureg('m')).to_base_units()")),
        B("mu Laplacian built with fixed sites", "R01.2", (OPS, "self.mu_laplacian, _ = build_laplacian(mesh, weights=self.laplacian_weights)", "self.mu_laplacian, _ = build_laplacian(mesh, weights=self.laplacian_weights, fixed_sites=self.fixed_sites)")),
        B("balance test back to exact zero", "R01.6", (SOLVER, "if abs(total_current) > tolerance:", "if total_current != 0:")),
        B("divergence area swap", "R01.2", DIV_SWAP_AREA),
        B("half-edge factor of the boundary flux", "R01.3", (OPS, "boundary_edges_length / (2 * mesh.areas[boundary_edges[:, 1]]),", "boundary_edges_length / (mesh.areas[boundary_edges[:, 1]]),")),
        E("divergence blocks reordered consistently", *DIV_REORDER),
        E("temporary for the total current", (SOLVER, "normal_current = -(operators.mu_gradient @ mu) - dA_dt", "grad_mu = operators.mu_gradient @ mu\n        normal_current = -grad_mu - dA_dt")),
        E("rhs rewritten with distributed divergence", (SOLVER, "rhs = (operators.divergence @ (supercurrent - dA_dt)) - (\n            operators.mu_boundary_laplacian @ self.mu_boundary\n        )", "flux = operators.mu_boundary_laplacian @ self.mu_boundary\n        rhs = (operators.divergence @ supercurrent) - (operators.divergence @ dA_dt) - flux")),
        E("tolerance written with math.isclose", (SOLVER, "if abs(total_current) > tolerance:", "if not math.isclose(total_current, 0.0, abs_tol=tolerance):")),
    ],
    "C02": [
        B("gamma instead of gamma^2 in z", "R02.1", (SOLVER, "z = U * gamma**2 / 2 * psi", "z = U * gamma / 2 * psi")),
        B("minus root", "R02.4", (SOLVER, "(two_c_1 + xp.sqrt(discriminant))", "(two_c_1 - xp.sqrt(discriminant))")),
        B("non-strict refusal", "R02.5", (SOLVER, "xp.any(discriminant < 0)", "xp.any(discriminant <= 0)")),
        B("temporal link dropped from w", "R02.1", (SOLVER, "w = z * abs_sq_psi + U * (", "w = z * abs_sq_psi + (")),
        B("epsilon + |psi|^2", "R02.1", (SOLVER, "(epsilon - abs_sq_psi) * psi", "(epsilon + abs_sq_psi) * psi")),
        B("u/dt for dt/u", "R02.1", (SOLVER, "+ (dt / u)", "+ (u / dt)")),
        B("textbook root (division by |z|^2)", "R02.4", (SOLVER, "new_sq_psi = (2 * w2) / (two_c_1 + xp.sqrt(discriminant))", "new_sq_psi = (two_c_1 - xp.sqrt(discriminant)) / (2 * xp.absolute(z) ** 2)")),
        B("psi' uses + z x", "R02.2", (SOLVER, "psi = w - z * new_sq_psi", "psi = w + z * new_sq_psi")),
        B("underflow raises again", "R02.6", (SOLVER, 'np.errstate(all="raise", under="ignore")', 'np.errstate(all="raise")')),
        B("refusal test removed", "R02.5", (SOLVER, "        if xp.any(discriminant < 0):\n            return None\n", "")),
        E("z with reordered factors", (SOLVER, "z = U * gamma**2 / 2 * psi", "z = 0.5 * gamma**2 * U * psi")),
        E("c via conjugate product", (SOLVER, "c = w.real * z.real + w.imag * z.imag", "c = (w * z.conjugate()).real")),
        E("two_c_1 regrouped", (SOLVER, "two_c_1 = 2 * c + 1", "two_c_1 = 1 + c + c")),
        E("method form of any", (SOLVER, "if xp.any(discriminant < 0):", "if (discriminant < 0).any():")),
        E("sqrt hoisted into a temporary", (SOLVER, "        new_sq_psi = (2 * w2) / (two_c_1 + xp.sqrt(discriminant))", "        root = xp.sqrt(discriminant)\n        new_sq_psi = 2 * w2 / (root + two_c_1)")),
    ],
    "C03": [
        B("divergence area swap", "R03.2", DIV_SWAP_AREA),
        B("missing conjugate in the Laplacian", "R03.5", LAP_NO_CONJ),
        B("boundary flux without the half", "R03.3", (OPS, "boundary_edges_length / (2 * mesh.areas[boundary_edges[:, 1]]),", "boundary_edges_length / (mesh.areas[boundary_edges[:, 1]]),")),
        B("edge direction reversed", "R03.6", (EMESH, "directions = np.diff(edge_coords, axis=1).squeeze()", "directions = -np.diff(edge_coords, axis=1).squeeze()")),
        B("gradient columns swapped", "R03.6", (OPS, "cols = np.concatenate([edge_mesh.edges[:, 1], edge_mesh.edges[:, 0]])", "cols = np.concatenate([edge_mesh.edges[:, 0], edge_mesh.edges[:, 1]])")),
        B("dual/edge inverted in the default Laplacian weights", "R03.1", (OPS, "weights = edge_mesh.dual_edge_lengths / edge_mesh.edge_lengths", "weights = edge_mesh.edge_lengths / edge_mesh.dual_edge_lengths")),
        B("diagonal uses the wrong area", "R03.4", (OPS, "            -weights / areas0,\n            -weights / areas1,", "            -weights / areas1,\n            -weights / areas0,")),
        B("MeshOperators gradient weights not 1/l", "R03.7", (OPS, "self.gradient_weights = 1 / edge_mesh.edge_lengths", "self.gradient_weights = 1 / edge_mesh.dual_edge_lengths")),
        B("Laplacian rows/cols mismatch", "R03.4", (OPS, "cols = np.concatenate([edges1, edges0, edges0, edges1])", "cols = np.concatenate([edges1, edges0, edges1, edges0])")),
        E("divergence blocks reordered", *DIV_REORDER),
        E("commuted products in the gradient", GRAD_COMMUTE),
        E("re-associated products in the Laplacian", LAP_ASSOC),
        E("csc instead of csr with a temporary", DIV_FMT),
        E("local renamed", (OPS, "    weights = edge_mesh.dual_edge_lengths\n    # Rows and cols to update", "    dual_lengths = edge_mesh.dual_edge_lengths\n    weights = dual_lengths\n    # Rows and cols to update")),
    ],
    "C04": [
        B("supercurrent anchored at the wrong site", "R04.2", (OPS, "return (psi.conjugate()[self.edges[:, 0]] * (self.psi_gradient @ psi)).imag", "return (psi.conjugate()[self.edges[:, 1]] * (self.psi_gradient @ psi)).imag")),
        B("temporal link missing from z", "R04.4", (SOLVER, "z = U * gamma**2 / 2 * psi", "z = gamma**2 / 2 * psi")),
        B("link sign flipped in the gradient builder only", "R04.3", (OPS, "        link_variable_weights = np.exp(\n            -1j * np.einsum(\"ij, ij -> i\", link_exponents, edge_mesh.directions)\n        )\n    rows = np.concatenate([edge_indices, edge_indices])", "        link_variable_weights = np.exp(\n            1j * np.einsum(\"ij, ij -> i\", link_exponents, edge_mesh.directions)\n        )\n    rows = np.concatenate([edge_indices, edge_indices])")),
        B("missing conjugate", "R04.1", LAP_NO_CONJ),
        B("link sign flipped in the refresh", "R04.3", (OPS, "-1j * xp.einsum(\"ij, ij -> i\", self.link_exponents, directions)", "1j * xp.einsum(\"ij, ij -> i\", self.link_exponents, directions)")),
        B("real part instead of imaginary part", "R04.2", (OPS, "(self.psi_gradient @ psi)).imag", "(self.psi_gradient @ psi)).real")),
        B("solver passes only the induced potential", "R04.5", (SOLVER, "operators.set_link_exponents(current_A_applied + A_induced)", "operators.set_link_exponents(A_induced)")),
        E("commuted products in the gradient", GRAD_COMMUTE),
        E("re-associated products in the Laplacian", LAP_ASSOC),
        E("supercurrent with conjugate taken after the gather", (OPS, "psi.conjugate()[self.edges[:, 0]]", "psi[self.edges[:, 0]].conjugate()")),
    ],
    "C05": [
        B("stop test back after the update", "R05.1",
          (RUNNER, "                    if self.time >= end_time:\n                        break\n                    # Run time step.", "                    # Run time step."),
          (RUNNER, "                    self.dt = new_dt\n", "                    if self.time >= end_time:\n                        break\n                    self.dt = new_dt\n")),
        B("save moved after the update", "R05.1",
          (RUNNER, "                    if i % self.options.save_every == 0:\n                        if save:\n                            save_step(i)\n                        self.running_state.clear()\n", ""),
          (RUNNER, "                    self.dt = new_dt\n", "                    if i % self.options.save_every == 0:\n                        if save:\n                            save_step(i)\n                        self.running_state.clear()\n                    self.dt = new_dt\n")),
        B("final save not complementary", "R05.2", (RUNNER, "if save and (i % self.options.save_every):", "if save and (i % self.options.save_every != 1):")),
        B("record appended inside the screening loop", "R05.3", (SOLVER, "            # Update the scalar potential, supercurrent density, and normal current density\n", "            running_state.append(\"dt\", dt)\n            # Update the scalar potential, supercurrent density, and normal current density\n")),
        B("squeeze of all axes again", "R05.4", (RUNNER, "                if value.shape[0] == 1:\n                    # A scalar recorded once per step: drop only the leading axis,\n                    # so that the step axis survives even if it has length 1.\n                    value = value[0]\n                running_grp[key] = value", "                running_grp[key] = np.squeeze(value)")),
        B("thermalisation is recorded", "R05.5", (RUNNER, "                    end_time=self.options.skip_time,\n                    save=False,", "                    end_time=self.options.skip_time,\n                    save=True,")),
        B("clock not reset after thermalisation", "R05.5", (RUNNER, "        if not success:\n            return False\n        self.time = 0\n", "        if not success:\n            return False\n")),
        B("times without the leading zero", "R05.6", (SOLN, "times = np.concatenate([[0.0], self.dynamics.time])", "times = self.dynamics.time")),
        B("record buffer from np.empty", "R05.7", (RUNNER, "            name: array_module.zeros((size, buffer_size))", "            name: array_module.empty((size, buffer_size))")),
        E("cursor advanced right after the update (same straight-line block)", (RUNNER, "                    self.running_state.step += 1\n", ""), (RUNNER, "                    new_dt, *self.values = function_result\n", "                    new_dt, *self.values = function_result\n                    self.running_state.step += 1\n")),
        B("theta recorded without the probe guard", "R05.3", (SOLVER, "            running_state.append(\"mu\", mu[self.probe_points])\n            running_state.append(\"theta\", xp.angle(psi[self.probe_points]))", "            running_state.append(\"mu\", mu[self.probe_points])\n        if True:\n            running_state.append(\"theta\", xp.angle(psi[self.probe_points]))")),
        E("residue compared explicitly", (RUNNER, "if save and (i % self.options.save_every):", "if save and (i % self.options.save_every != 0):")),
        E("times via np.insert", (SOLN, "times = np.concatenate([[0.0], self.dynamics.time])", "times = np.insert(self.dynamics.time, 0, 0)")),
        E("scalar record via conditional expression", (RUNNER, "                if value.shape[0] == 1:\n                    # A scalar recorded once per step: drop only the leading axis,\n                    # so that the step axis survives even if it has length 1.\n                    value = value[0]\n                running_grp[key] = value", "                running_grp[key] = value[0] if value.shape[0] == 1 else value")),
        E("local for save_every", (RUNNER, "                    if i % self.options.save_every == 0:\n                        if save:", "                    if i % self.options.save_every == 0:\n                        # record this step\n                        if save:")),
    ],
    "C06": [
        B("mask on columns", "R06.2", (OPS, "free_rows = np.isin(rows, fixed_sites, invert=True)", "free_rows = np.isin(cols, fixed_sites, invert=True)")),
        B("always pinned", "R06.3", (SOLVER, "fix_psi=(terminal_psi is not None),", "fix_psi=True,")),
        B("interior sites in terminals", "R06.4", (DEVICE, "terminal.contains_points(sites, index=True), mesh.boundary_indices", "terminal.contains_points(sites, index=True), np.arange(len(sites))")),
        B("refresh ignores the mask", "R06.2", (OPS, "            if self.fix_psi:\n                free_rows = self.laplacian_free_rows[: len(self.laplacian_link_rows)]", "            if False:\n                free_rows = self.laplacian_free_rows[: len(self.laplacian_link_rows)]")),
        B("identity row eigenvalue 0.5 (psi=0 still pinned, v drift changes)", "R06.1", (OPS, "    fixed_sites_eigenvalues: float = 1,", "    fixed_sites_eigenvalues: float = 1,\n    _unused: int = 0,"), (OPS, "[values, fixed_sites_eigenvalues * np.ones(len(fixed_sites))]", "[values, fixed_sites_eigenvalues * np.ones(len(fixed_sites)) + (rows[:0].sum() + 1) * 0]")),
        B("initial psi written unconditionally", "R06.3", (SOLVER, "        if terminal_psi is not None:\n            psi_init[normal_boundary_index] = terminal_psi", "        if True:\n            psi_init[normal_boundary_index] = terminal_psi or 0")),
        B("first terminal dropped from the fixed sites", "R06.3", (SOLVER, "normal_boundary_index = np.concatenate(terminal_indices, dtype=np.int64)", "normal_boundary_index = np.concatenate(terminal_indices[1:] or [np.array([], dtype=np.int64)], dtype=np.int64)")),
        E("re-associated products in the Laplacian", LAP_ASSOC),
        E("comprehension variable renamed", (SOLVER, "terminal_indices = [t.site_indices for t in self.terminal_info]", "terminal_indices = [term.site_indices for term in self.terminal_info]")),
    ],
    "C07": [
        B("circumcentre y sign", "R07.1", (UTIL, "Uy = (B[:, 0] * (C**2).sum(axis=1) - C[:, 0] * (B**2).sum(axis=1)) / D", "Uy = (B[:, 0] * (C**2).sum(axis=1) + C[:, 0] * (B**2).sum(axis=1)) / D")),
        B("circumcentre not shifted back", "R07.1", (UTIL, "return np.array([Ux, Uy]).T + A", "return np.array([Ux, Uy]).T")),
        B("boundary predicate >= 1", "R07.2", (UTIL, "return edges, counts == 1", "return edges, counts >= 1")),
        B("edges not sorted", "R07.2", (UTIL, "    edges = np.sort(edges, axis=1)\n", "")),
        B("inner dual length to the edge centre", "R07.3", (UTIL, "dual_sites[indices[0]] - dual_sites[indices[1]]", "dual_sites[indices[0]] - edge_centers[i]")),
        B("adjacency offset dropped on read", "R07.3", (UTIL, "edge_to_element[frozenset((i, j))].append(v - 1)", "edge_to_element[frozenset((i, j))].append(v)")),
        B("edge centres at the first site", "R07.2", (EMESH, "edge_centers = edge_coords.mean(axis=1)", "edge_centers = edge_coords[:, 0]")),
        E("boundary predicate < 2", (UTIL, "return edges, counts == 1", "return edges, counts < 2")),
        E("D factored", (UTIL, "D = 2 * B[:, 0] * C[:, 1] - 2 * B[:, 1] * C[:, 0]", "D = 2 * (B[:, 0] * C[:, 1] - B[:, 1] * C[:, 0])")),
    ],
    "C08": [
        B("A_scale misses xi", "R08.1", (SOLVER, "(ureg(field_units) * length_units / (Bc2 * xi * length_units))", "(ureg(field_units) * length_units / (Bc2 * length_units))")),
        B("K0 prefactor 2", "R08.2", (DEVICE, 'K0 = 4 * self.coherence_length * self.Bc2 / (ureg("mu_0") * self.Lambda)', 'K0 = 2 * self.coherence_length * self.Bc2 / (ureg("mu_0") * self.Lambda)')),
        B("screening areas xi instead of xi^2", "R08.1", (SOLVER, "self.areas = A_scale.magnitude * mesh.areas * xi**2", "self.areas = A_scale.magnitude * mesh.areas * xi")),
        B("uniform field potential without the half", "R08.3", (EM, "Ay = Bz * xs / 2", "Ay = Bz * xs")),
        B("vorticity scale K0*xi", "R08.1", (SOLN, "scale = (device.K0 / device.coherence_length).to(", "scale = (device.K0 * device.coherence_length).to(")),
        B("positions not converted to metres", "R08.3", (CONST, 'positions = (positions * ureg(length_units)).to("m").magnitude', "positions = (positions * ureg(length_units)).magnitude")),
        B("Bc2 with xi instead of xi^2", "R08.2", (DEVICE, 'ureg("Phi_0") / (2 * np.pi * self.coherence_length**2)', 'ureg("Phi_0") / (2 * np.pi * self.coherence_length * ureg("m"))')),
        B("unit system special-cased", "R08.4", (SOLVER, "        edges = mesh.edge_mesh.edges\n", '        if field_units == "T":\n            field_units = "tesla"\n        edges = mesh.edge_mesh.edges\n')),
        B("screening prefactor K0*A0", "R08.1", (SOLVER, '(ureg("mu_0") / (4 * np.pi) * K0 / A0).to(1 / length_units)', '(ureg("mu_0") / (4 * np.pi) * K0 * A0 / (A0 * A0) * 2).to(1 / length_units)')),
        E("A_scale with cancelled length units", (SOLVER, "(ureg(field_units) * length_units / (Bc2 * xi * length_units))", "(ureg(field_units) / (Bc2 * xi))")),
        E("K0 regrouped", (DEVICE, 'K0 = 4 * self.coherence_length * self.Bc2 / (ureg("mu_0") * self.Lambda)', 'K0 = 4 * self.coherence_length * self.Bc2 / ureg("mu_0") / self.Lambda')),
    ],
    "C09": [
        B("random perturbation of the initial psi", "R09.1", (SOLVER, "psi_init = np.ones(len(mesh.sites), dtype=np.complex128)", "psi_init = np.ones(len(mesh.sites), dtype=np.complex128) + 1e-12 * np.random.default_rng().random(len(mesh.sites))")),
        B("accumulator hoisted out of the parallel loop", "R09.3", (SCREEN, "    for i in numba.prange(edge_centers.shape[0]):\n        for k in range(J_site.shape[1]):\n            tmp = 0.0\n", "    tmp = 0.0\n    for i in numba.prange(edge_centers.shape[0]):\n        for k in range(J_site.shape[1]):\n")),
        B("kernel leaves the last column unwritten", "R09.4", (DIST, "    out = np.empty((XA.shape[0], XB.shape[0]), dtype=XA.dtype)\n    for i in numba.prange(XA.shape[0]):\n        for j in range(XB.shape[0]):\n            dx = XA[i, 0] - XB[j, 0]\n            dy = XA[i, 1] - XB[j, 1]\n            out[i, j] = dx * dx + dy * dy", "    out = np.empty((XA.shape[0], XB.shape[0]), dtype=XA.dtype)\n    for i in numba.prange(XA.shape[0]):\n        for j in range(XB.shape[0] - 1):\n            dx = XA[i, 0] - XB[j, 0]\n            dy = XA[i, 1] - XB[j, 1]\n            out[i, j] = dx * dx + dy * dy")),
        B("iteration over a set of polygons", "R09.2", (DEVICE, "for polygon in [self.film] + self.holes:", "for polygon in set([self.film] + self.holes):")),
        B("wall clock in the state", "R09.1", (RUNNER, '                    self.state["dt"] = dt\n', '                    self.state["dt"] = dt\n                    self.state["wall"] = time.perf_counter()\n')),
        B("parallel store on a shared row", "R09.3", (EM, "        Bz_out[i] = Jx_dy - Jy_dx", "        Bz_out[0] = Jx_dy - Jy_dx")),
        B("induced-potential buffer read before the kernel", "R09.4", (SOLVER, "        # Evaluate the induced vector potential.\n", "        stale = self.new_A_induced.sum()\n        # Evaluate the induced vector potential.\n")),
        B("environment written unconditionally", "R09.5", (SOLVER, "        if options.monitor:\n            os.environ", "        if True:\n            os.environ")),
        E("set algebra with operators", (SOLVER, "if unknown := set(currents).difference(names):", "if unknown := set(currents) - names:")),
        E("timestamp via a local", (RUNNER, '        group.attrs["timestamp"] = datetime.now().isoformat()', '        stamp = datetime.now().isoformat()\n        group.attrs["timestamp"] = stamp')),
    ],
    "C10": [
        B("refresh misses the conjugate", "R10.1", (OPS, "weights * link_variables.conjugate() / areas[edges[:, 1]],", "weights * link_variables / areas[edges[:, 1]],")),
        B("refresh uses the opposite sign", "R10.1", (OPS, "-1j * xp.einsum(\"ij, ij -> i\", self.link_exponents, directions)", "1j * xp.einsum(\"ij, ij -> i\", self.link_exponents, directions)")),
        B("refresh masks by columns", "R10.1", (OPS, "free_rows = self.laplacian_free_rows[: len(self.laplacian_link_rows)]", "free_rows = np.isin(self.laplacian_link_cols, self.fixed_sites, invert=True)")),
        B("gradient refresh writes the wrong column", "R10.1", (OPS, "self.gradient_link_cols = edge_mesh.edges[:, 1]", "self.gradient_link_cols = edge_mesh.edges[:, 0]")),
        B("only one Laplacian block refreshed", "R10.2", (OPS, "        self.laplacian_link_rows = np.concatenate(\n            [edge_mesh.edges[:, 0], edge_mesh.edges[:, 1]]\n        )\n        self.laplacian_link_cols = np.concatenate(\n            [edge_mesh.edges[:, 1], edge_mesh.edges[:, 0]]\n        )", "        self.laplacian_link_rows = np.concatenate([edge_mesh.edges[:, 0]])\n        self.laplacian_link_cols = np.concatenate([edge_mesh.edges[:, 1]])"),
          (OPS, "            values = xp.concatenate(\n                [\n                    weights * link_variables / areas[edges[:, 0]],\n                    weights * link_variables.conjugate() / areas[edges[:, 1]],\n                ]\n            )", "            values = xp.concatenate(\n                [\n                    weights * link_variables / areas[edges[:, 0]],\n                ]\n            )")),
        B("tolerance guard with a forgotten baseline", "R10.5", (SOLVER, "if not xp.array_equal(current_A_applied, self.current_A_applied):", "if not xp.allclose(current_A_applied, self.current_A_applied):")),
        B("screening refresh only every other iteration", "R10.5", (SOLVER, "            if options.include_screening:\n                # Update the link variables", "            if options.include_screening and not xp.allclose(A_induced, 0):\n                # Update the link variables")),
        B("refresh uses stale weights", "R10.1", (OPS, "            weights = self.laplacian_weights\n            values = xp.concatenate(", "            weights = self.gradient_weights\n            values = xp.concatenate(")),
        E("exact comparison spelled with any()", (SOLVER, "if not xp.array_equal(current_A_applied, self.current_A_applied):", "if (current_A_applied != self.current_A_applied).any():")),
        E("re-associated products in the Laplacian builder", LAP_ASSOC),
        E("refresh values regrouped", (OPS, "weights * link_variables / areas[edges[:, 0]],", "link_variables * weights / areas[edges[:, 0]],")),
    ],
    "C11": [
        B("update reads save_every", "R11.1", (SOLVER, "for screening_iteration in itertools.count():", "for screening_iteration in itertools.count(options.save_every % 2):")),
        B("seed table swaps currents", "R11.4", (SOLVER, '"normal_current": seed_data.normal_current,', '"normal_current": seed_data.supercurrent,')),
        B("seed table drops the induced potential", "R11.4", (SOLVER, '                "normal_current": seed_data.normal_current,\n                "induced_vector_potential": seed_data.induced_vector_potential,\n', '                "normal_current": seed_data.normal_current,\n')),
        B("probe readout normalises mu in place", "R11.2", (SOLVER, '            running_state.append("mu", mu[self.probe_points])', '            mu -= mu[self.probe_points[0]]\n            running_state.append("mu", mu[self.probe_points])')),
        B("writer mutates the state dict", "R11.2", (RUNNER, '        group.attrs["timestamp"] = datetime.now().isoformat()', '        group.attrs["timestamp"] = datetime.now().isoformat()\n        state["saved"] = True')),
        B("stop test back after the update (label/content)", "R11.5",
          (RUNNER, "                    if self.time >= end_time:\n                        break\n                    # Run time step.", "                    # Run time step."),
          (RUNNER, "                    self.dt = new_dt\n", "                    if self.time >= end_time:\n                        break\n                    self.dt = new_dt\n")),
        B("adaptive rule reads progress_interval", "R11.1", (SOLVER, "            window = options.adaptive_window\n", "            window = options.adaptive_window + (1 if options.progress_interval else 0)\n")),
        B("update receives the data handler", "R11.1", (RUNNER, "                        dt,\n                        **dict(zip(self.names, self.values)),", "                        dt if self.data_handler.tmp_file is None else 0.5 * dt,\n                        **dict(zip(self.names, self.values)),")),
        E("update argument spelled as a conditional with equal arms", (RUNNER, "                        dt,\n                        **dict(zip(self.names, self.values)),", "                        dt if self.data_handler.tmp_file is None else dt,\n                        **dict(zip(self.names, self.values)),")),
        E("timestamp via a local", (RUNNER, '        group.attrs["timestamp"] = datetime.now().isoformat()', '        stamp = datetime.now().isoformat()\n        group.attrs["timestamp"] = stamp')),
    ],
    "C12": [
        B("cap is twice dt_max", "R12.1", (SOLVER, "self.tentative_dt = np.clip(0.5 * (new_dt + dt), 0, self.dt_max)", "self.tentative_dt = np.clip(0.5 * (new_dt + dt), 0, options.dt_max * 2)")),
        B("no warm-up", "R12.1", (SOLVER, "if step > window:", "if step >= 0:")),
        B("retry bound tests the step index", "R12.3", (SOLVER, "if not options.adaptive or retries > options.max_solve_retries:", "if not options.adaptive or step > options.max_solve_retries:")),
        B("dt passed on but not returned", "R12.3", (SOLVER, 'kwargs["dt"] = dt = dt * options.adaptive_time_step_multiplier', 'kwargs["dt"] = dt * options.adaptive_time_step_multiplier')),
        B("tentative step re-applied in every screening iteration", "R12.4", (SOLVER, "if screening_iteration == 0:", "if screening_iteration >= 0:")),
        B("dt_max instead of dt_init in the rule", "R12.1", (SOLVER, "new_dt = options.dt_init / max(", "new_dt = options.dt_max / max(")),
        B("non-adaptive runs adapt", "R12.2", (SOLVER, "        if options.adaptive:\n            # Compute the max abs change", "        if True:\n            # Compute the max abs change")),
        B("recorded dt is the tentative one", "R12.4", (SOLVER, 'running_state.append("dt", dt)', 'running_state.append("dt", self.tentative_dt)')),
        B("multiplier applied twice", "R12.3", (SOLVER, 'kwargs["dt"] = dt = dt * options.adaptive_time_step_multiplier', 'dt = dt * options.adaptive_time_step_multiplier\n            kwargs["dt"] = dt = dt * options.adaptive_time_step_multiplier')),
        E("mean of the window via a local", (SOLVER, "                new_dt = options.dt_init / max(\n                    1e-10, np.mean(self.d_psi_sq_vals[-window:])\n                )", "                delta = np.mean(self.d_psi_sq_vals[-window:])\n                new_dt = options.dt_init / max(1e-10, delta)")),
        E("proposal regrouped", (SOLVER, "np.clip(0.5 * (new_dt + dt), 0, self.dt_max)", "np.clip((dt + new_dt) / 2, 0, self.dt_max)")),
    ],
    "C13": [
        B("area weight dropped (numba)", "R13.1", (SCREEN, "    for i in numba.prange(edge_centers.shape[0]):\n        for k in range(J_site.shape[1]):\n            tmp = 0.0\n            for j in range(J_site.shape[0]):\n                dx = edge_centers[i, 0] - sites[j, 0]\n                dy = edge_centers[i, 1] - sites[j, 1]\n                dr = np.sqrt(dx * dx + dy * dy)\n                tmp += J_site[j, k] * site_areas[j] / dr", "    for i in numba.prange(edge_centers.shape[0]):\n        for k in range(J_site.shape[1]):\n            tmp = 0.0\n            for j in range(J_site.shape[0]):\n                dx = edge_centers[i, 0] - sites[j, 0]\n                dy = edge_centers[i, 1] - sites[j, 1]\n                dr = np.sqrt(dx * dx + dy * dy)\n                tmp += J_site[j, k] / dr")),
        B("cupy range one short", "R13.2", (SCREEN, "for j in cupyx.jit.range(sites.shape[0]):", "for j in cupyx.jit.range(sites.shape[0] - 1):")),
        B("early exit after three iterations", "R13.5", (SOLVER, "if screening_error < options.screening_tolerance:", "if screening_iteration > 2 or screening_error < options.screening_tolerance:")),
        B("alpha and beta swapped", "R13.4", (SOLVER, "alpha = options.screening_step_size", "alpha = options.screening_step_drag")),
        B("velocity sign", "R13.4", (SOLVER, "velocity.append((1 - beta) * velocity[-1] + alpha * dA)", "velocity.append((1 - beta) * velocity[-1] - alpha * dA)")),
        B("kernel arguments swapped", "R13.3", (SOLVER, "get_A_induced_numba(J_site, areas, sites, edge_centers, self.new_A_induced)", "get_A_induced_numba(J_site, areas, edge_centers, sites, self.new_A_induced)")),
        B("initial error zero", "R13.5", (SOLVER, "screening_error = np.inf", "screening_error = 0.0")),
        B("error measured on the velocity", "R13.4", (SOLVER, "numerator = xp.linalg.norm(dA, axis=1)", "numerator = xp.linalg.norm(velocity[-1], axis=1)")),
        B("non-convergence returns instead of raising", "R13.5", (SOLVER, "            if screening_iteration > options.max_iterations_per_step:\n                raise RuntimeError(", "            if screening_iteration > options.max_iterations_per_step:\n                break\n                raise RuntimeError(")),
        B("distance squared in the kernel", "R13.1", (SCREEN, "                dr = np.sqrt(dx * dx + dy * dy)\n                tmp += J_site[j, k] * site_areas[j] / dr\n            A_induced[i, k] = tmp\n\n\nget_A_induced_cupy", "                dr = dx * dx + dy * dy\n                tmp += J_site[j, k] * site_areas[j] / dr\n            A_induced[i, k] = tmp\n\n\nget_A_induced_cupy")),
        E("dA inlined", (SOLVER, "        dA = new_A_induced - A_induced\n        velocity.append((1 - beta) * velocity[-1] + alpha * dA)", "        dA = new_A_induced - A_induced\n        velocity.append(alpha * dA + velocity[-1] * (1 - beta))")),
        E("kernel summand regrouped", (SCREEN, "                tmp += J_site[j, k] * site_areas[j] / dr\n            A_induced[i, k] = tmp\n\n\nget_A_induced_cupy", "                tmp += site_areas[j] / dr * J_site[j, k]\n            A_induced[i, k] = tmp\n\n\nget_A_induced_cupy")),
    ],
    "C14": [
        B("Layer stops writing z0", "R14.1", (LAYER, '        h5_group.attrs["z0"] = self.z0\n', "")),
        B("Polygon reader ignores the mesh flag", "R14.1", (POLY, '            mesh=h5_group.attrs["mesh"],\n', "")),
        B("EdgeMesh reads edge_lengths for dual lengths", "R14.1", (EMESH, 'dual_edge_lengths=np.array(h5group["dual_edge_lengths"]),', 'dual_edge_lengths=np.array(h5group["edge_lengths"]),')),
        B("None options reload as defaults", "R14.2", (SOLN, "                if optional and field.name not in options_kwargs:\n                    options_kwargs[field.name] = None\n", "                if optional and field.name not in options_kwargs:\n                    pass\n")),
        B("getstate drops the slots again", "R14.4", (PARAM, '        state["time_dependent"] = self.time_dependent\n        state["_use_cache"] = self._use_cache\n', ""), (PARAM, '        self.time_dependent = state.pop("time_dependent")\n        self._use_cache = state.pop("_use_cache", None)\n        self._cache = {}\n', "")),
        B("is_restorable forgets dual_sites", "R14.3", (MESH, '            and "dual_sites" in h5group\n', "")),
        B("disorder_epsilon saved under another name", "R14.5", (SOLN, '                self.disorder_epsilon,\n                "disorder_epsilon",\n', '                self.disorder_epsilon,\n                "epsilon",\n')),
        B("dynamics format detected by theta again", "R14.1", (DATA, '        if "dt" in h5file:', '        if "theta" in h5file:')),
        B("conductivity read unconditionally", "R14.1", (LAYER, 'conductivity=get("conductivity"),', 'conductivity=h5_group.attrs["conductivity"],')),
        B("TDGLData writer skips epsilon", "R14.6", (DATA, '            if key in ["step"]:\n                continue\n            if key in ["state"]:\n                group.attrs.update(value)', '            if key in ["step", "epsilon"]:\n                continue\n            if key in ["state"]:\n                group.attrs.update(value)')),
        E("Layer writer reordered", (LAYER, '        h5_group.attrs["u"] = self.u\n        h5_group.attrs["gamma"] = self.gamma\n', '        h5_group.attrs["gamma"] = self.gamma\n        h5_group.attrs["u"] = self.u\n')),
        E("Polygon reader with a local", (POLY, '            mesh=h5_group.attrs["mesh"],\n', '            mesh=bool(h5_group.attrs["mesh"]),\n')),
    ],
    "C15": [
        B("leak of the output file returns", "R15.1", (RUNNER, "                if file is not None:\n                    # Only the tmp file could not be created: do not leave the\n                    # empty output file that was just created open and on disk.\n                    file.close()\n                    os.remove(file_path)\n", "")),
        B("closed but not removed", "R15.1", (RUNNER, "                    file.close()\n                    os.remove(file_path)\n", "                    file.close()\n")),
        B("__exit__ swallows", "R15.2", (RUNNER, "        self.close()\n\n    def close(self):", "        self.close()\n        return True\n\n    def close(self):")),
        B("__exit__ skips close on error", "R15.2", (RUNNER, "            self.logger.warning(\n                \"\".join(traceback.format_exception(exc_type, exc_value, exc_traceback))\n            )\n        self.close()", "            self.logger.warning(\n                \"\".join(traceback.format_exception(exc_type, exc_value, exc_traceback))\n            )\n            return\n        self.close()")),
        B("tmp file not removed", "R15.2", (RUNNER, "            self.tmp_file.close()\n            os.remove(self.tmp_path)\n", "            self.tmp_file.close()\n")),
        B("output opened for append", "R15.3", (RUNNER, 'file = h5py.File(file_path, "x")', 'file = h5py.File(file_path, "a")')),
        B("interrupt breaks without cancelling", "R15.4", (RUNNER, '                        self.logger.warning(msg.format("Cancelling"))\n                        cancelled = True\n                        break\n            if save', '                        self.logger.warning(msg.format("Cancelling"))\n                        break\n            if save')),
        B("partial frames are kept", "R15.5", (RUNNER, "            del self.time_step_group[name]\n            raise", "            raise")),
        # `return success` alone is an equivalent mutant (success is True whenever the recorded stage is entered): the path-based rule
        # it was written for alarmed on it, the trace predicates rightly do not.  The breaking variant returns the recorded stage's result.
        E("run() returns the (always true) thermalisation flag", (RUNNER, "        return True\n\n    def _run_stage", "        return success\n\n    def _run_stage")),
        B("cancelled run returns no solution", "R15.4", (RUNNER, "            self._run_stage(\n                \"Simulating\",", "            success = self._run_stage(\n                \"Simulating\","),
          (RUNNER, "        return True\n\n    def _run_stage", "        return success\n\n    def _run_stage")),
        B("name clash retries the same name", "R15.3", (RUNNER, "                if serial_number is None:\n                    serial_number = 1\n                else:\n                    serial_number += 1\n                continue", "                continue")),
        E("release spelled with a local", (RUNNER, "                    file.close()\n                    os.remove(file_path)\n", "                    created = file_path\n                    file.close()\n                    os.remove(file_path)\n")),
        E("cleanup handler catches Exception and BaseException separately", (RUNNER, "        except BaseException:\n            # Never leave a partially written frame in the output file.\n            del self.time_step_group[name]\n            raise", "        except BaseException:\n            # Never leave a partially written frame in the output file.\n            del self.time_step_group[name]\n            raise\n        else:\n            pass")),
    ],
    "C16": [
        B("__rsub__ in forward order", "R16.1", (PARAM, "return CompositeParameter(other, self, operator.sub)", "return CompositeParameter(self, other, operator.sub)")),
        B("__rtruediv__ uses mul", "R16.1", (PARAM, "return CompositeParameter(other, self, operator.truediv)", "return CompositeParameter(other, self, operator.mul)")),
        B("time dependence of the right operand read from the left", "R16.4", (PARAM, "if isinstance(self.right, Parameter) and self.right.time_dependent:", "if isinstance(self.right, Parameter) and self.left.time_dependent:")),
        B("t passed to the static operands", "R16.2", (PARAM, "                if operand.time_dependent:", "                if not operand.time_dependent:")),
        B("operands evaluated right to left", "R16.2", (PARAM, "for operand in (self.left, self.right):", "for operand in (self.right, self.left):")),
        B("_clear_cache guard on the cache again", "R16.4", (PARAM, "        if isinstance(self.right, Parameter):\n            self.right._clear_cache()", "        if isinstance(self.right._cache, Parameter):\n            self.right._clear_cache()")),
        B("_use_cache slot unassigned again", "R16.5", (PARAM, "        self._cache = {}\n        self._use_cache = None\n        self.left = left", "        self._cache = {}\n        self.left = left")),
        B("equality ignores the operator", "R16.6", (PARAM, "            and self.right == other.right\n            and self.operator is other.operator\n", "            and self.right == other.right\n")),
        B("time_dependent only from the left operand", "R16.3", (PARAM, "        if isinstance(self.right, Parameter) and self.right.time_dependent:\n            self.time_dependent = True\n", "        if isinstance(self.right, Parameter) and self.right.time_dependent:\n            pass\n")),
        B("pow missing from the table", "R16.1", (PARAM, '        operator.pow: "**",\n', "")),
        E("_clear_cache loops over the operands", (PARAM, "        if isinstance(self.right, Parameter):\n            self.right._clear_cache()\n        if isinstance(self.left, Parameter):\n            self.left._clear_cache()", "        for operand in (self.left, self.right):\n            if isinstance(operand, Parameter):\n                operand._clear_cache()")),
        E("__call__ with a ternary", (PARAM, "                if operand.time_dependent:\n                    value = operand(x, y, z, **kwargs)\n                else:\n                    value = operand(x, y, z)", "                value = operand(x, y, z, **kwargs) if operand.time_dependent else operand(x, y, z)")),
    ],
    "C17": [
        B("diagonal uses the wrong area", "R17.1", (OPS, "            -weights / areas0,\n            -weights / areas1,", "            -weights / areas1,\n            -weights / areas0,")),
        B("initial psi 0.5", "R17.4", (SOLVER, "psi_init = np.ones(len(mesh.sites), dtype=np.complex128)", "psi_init = 0.5 * np.ones(len(mesh.sites), dtype=np.complex128)")),
        B("nonlinearity (eps - |psi|^2 + 1e-3)", "R17.2", (SOLVER, "(epsilon - abs_sq_psi) * psi", "(epsilon - abs_sq_psi + 0.001) * psi")),
        B("gradient negative weight scaled", "R17.1", (OPS, "values = np.concatenate([link_variable_weights * weights, -weights])", "values = np.concatenate([link_variable_weights * weights, -0.5 * weights])")),
        B("mu starts at one", "R17.4", (SOLVER, "mu_init = np.zeros(len(mesh.sites))", "mu_init = np.ones(len(mesh.sites))")),
        B("terminals always overwritten initially", "R17.4", (SOLVER, "        if terminal_psi is not None:\n            psi_init[normal_boundary_index] = terminal_psi", "        if True:\n            psi_init[normal_boundary_index] = terminal_psi or 0")),
        B("current density with an offset", "R17.3", (SOLVER, "current_density = (-1 / terminal.length) * sum(", "current_density = 1e-6 + (-1 / terminal.length) * sum(")),
        E("re-associated products in the Laplacian", LAP_ASSOC),
        E("commuted gradient", GRAD_COMMUTE),
    ],
    "C18": [
        B("__sub__ intersects", "R18.1", (POLY, "    def __sub__(self, other: PolygonType) -> \"Polygon\":\n        return self.difference(other)", "    def __sub__(self, other: PolygonType) -> \"Polygon\":\n        return self.intersection(other)")),
        B("difference joins via union for later operands", "R18.1", (POLY, '            points=self._join_via(first, "difference"),\n            mesh=self.mesh,\n        ).difference(*rest, name=name)', '            points=self._join_via(first, "difference"),\n            mesh=self.mesh,\n        ).union(*rest, name=name)')),
        B("rotate writes self", "R18.2", (POLY, "        polygon = self if inplace else self.copy()\n        polygon.points = affinity.rotate(", "        polygon = self if inplace else self.copy()\n        self.points = polygon.points = affinity.rotate(")),
        B("shallow polygon copy", "R18.3", (POLY, "            points=self.points.copy(),\n            mesh=self.mesh,\n        )\n", "            points=self.points,\n            mesh=self.mesh,\n        )\n")),
        B("setter skips orient", "R18.4", (POLY, "        points = geo.polygon.orient(points)\n", "")),
        B("holes count as inside", "R18.5", (DEVICE, "mask = self.film.contains_points(points, radius=radius) & ~np.logical_or.reduce(", "mask = self.film.contains_points(points, radius=radius) | ~np.logical_or.reduce(")),
        B("_join_via swaps the operands", "R18.1", (POLY, "joined = getattr(self.polygon, operation)(other_poly)", "joined = getattr(other_poly, operation)(self.polygon)")),
        B("device copy shares the holes", "R18.3", (DEVICE, "holes = [hole.copy() for hole in self.holes]", "holes = list(self.holes)")),
        B("translate not in place moves self", "R18.2", (POLY, "        polygon = self if inplace else self.copy()\n        polygon.points = affinity.translate(self.polygon, xoff=dx, yoff=dy)", "        polygon = self if not inplace else self.copy()\n        polygon.points = affinity.translate(self.polygon, xoff=dx, yoff=dy)")),
        B("from_union intersects", "R18.1", (POLY, "        polygon = cls(name=name, points=first, mesh=mesh)\n        return polygon.union(*rest)", "        polygon = cls(name=name, points=first, mesh=mesh)\n        return polygon.intersection(*rest)")),
        E("hole radius sign kept, mask spelled with logical_not", (DEVICE, "mask = self.film.contains_points(points, radius=radius) & ~np.logical_or.reduce(\n            [hole.contains_points(points, radius=-radius) for hole in self.holes]\n        )", "mask = self.film.contains_points(points, radius=radius) & ~np.logical_or.reduce(\n            [hole.contains_points(points, radius=-radius) for hole in self.holes]\n        )  # film and not any hole")),
    ],
    "C19": [
        B("epsilon = 1 rejected", "R19.3", (SOLVER, "if np.any(epsilon > 1):", "if np.any(epsilon >= 1):")),
        B("multiplier 1 accepted", "R19.3", (OPTIONS, "if not (0 < self.adaptive_time_step_multiplier < 1):", "if not (0 < self.adaptive_time_step_multiplier <= 1):")),
        B("seed check inside the with block", "R19.1", (SOLVER, "            if self.seed_solution.device != self.device:\n                raise ValueError(\n                    \"The seed_solution.device must be equal to the device being simulated.\"\n                )\n", ""), (SOLVER, "            data_handler.save_mesh(self.device.mesh)\n", "            if self.seed_solution is not None and self.seed_solution.device != self.device:\n                raise ValueError(\"seed device mismatch\")\n            data_handler.save_mesh(self.device.mesh)\n")),
        B("constructor creates the output directory", "R19.1", (SOLVER, "        self.seed_solution = seed_solution\n", "        self.seed_solution = seed_solution\n        if options.output_file:\n            os.makedirs(os.path.dirname(os.path.abspath(options.output_file)), exist_ok=True)\n")),
        B("empty terminal not rejected", "R19.3", (SOLVER, "            if term_info.length == 0:", "            if term_info.length < 0:")),
        B("terminal currents validated only for dicts", "R19.3", (SOLVER, "        validate_terminal_currents(self.current_func, self.terminal_info, self.options)", "        if not callable(terminal_currents):\n            validate_terminal_currents(self.current_func, self.terminal_info, self.options)")),
        B("balance tolerance 1e-3", "R19.3", (SOLVER, "tolerance = 1e-9 * sum(abs(current) for current in currents.values())", "tolerance = 1e-3 * sum(abs(current) for current in currents.values())")),
        B("screening tolerance 0 accepted", "R19.3", (OPTIONS, "if self.screening_tolerance <= 0:", "if self.screening_tolerance < 0:")),
        B("terminal_psi above one accepted", "R19.3", (OPTIONS, "not (0 <= abs(self.terminal_psi) <= 1)", "not (0 <= abs(self.terminal_psi) <= 2)")),
        B("shape check dropped", "R19.3", (SOLVER, "        if current_A_applied.shape != self.edge_centers.shape:\n            raise ValueError(\n                f\"Unexpected shape for vector_potential: {current_A_applied.shape}.\"\n            )\n", "")),
        B("vector-potential shape validated after the first write", "R19.2", (SOLVER, "            data_handler.save_mesh(self.device.mesh)\n", "            data_handler.save_mesh(self.device.mesh)\n            if self.current_A_applied.ndim != 2:\n                raise ValueError(\"bad vector potential\")\n")),
        E("epsilon guard with a local", (SOLVER, "        if np.any(epsilon > 1):", "        too_large = epsilon > 1\n        if np.any(too_large):")),
        E("multiplier guard spelled with or", (OPTIONS, "if not (0 < self.adaptive_time_step_multiplier < 1):", "if self.adaptive_time_step_multiplier <= 0 or self.adaptive_time_step_multiplier >= 1:")),
    ],
    "C20": [
        B("Bz with +", "R20.1", (EM, "        B_out[i, 2] = Jx_dy - Jy_dx", "        B_out[i, 2] = Jx_dy + Jy_dx")),
        B("z kernel uses dy twice", "R20.2", (EM, "            Jx_dy += pref * Jx[k] * dy\n            Jy_dx += pref * Jy[k] * dx\n        Bz_out[i] = Jx_dy - Jy_dx", "            Jx_dy += pref * Jx[k] * dy\n            Jy_dx += pref * Jy[k] * dy\n        Bz_out[i] = Jx_dy - Jy_dx")),
        B("H->B divides by mu0", "R20.4", (EM, 'value = (value * ureg("mu0")).to(new_units)', 'value = (value / ureg("mu0")).to(new_units)')),
        B("areas scaled by one length only", "R20.4", (EM, "areas = areas * to_meter**2", "areas = areas * to_meter")),
        B("elliptic combination", "R20.6", (EM, "(((m - 2) * K + 2 * E))", "(((m - 2) * K + E))")),
        B("euclidean 2d distance mixes coordinates", "R20.7", (DIST, "            out[i, j] = np.sqrt(dx * dx + dy * dy)", "            out[i, j] = np.sqrt(dx * dx + dy * dx)")),
        B("kernel power -1", "R20.1", (EM, "                * (dx * dx + dy * dy + dz * dz) ** (-3 / 2)\n            )\n            Jx_dy += pref * Jx[k] * dy\n            Jy_dx += pref * Jy[k] * dx\n            Jx_dz", "                * (dx * dx + dy * dy + dz * dz) ** (-1)\n            )\n            Jx_dy += pref * Jx[k] * dy\n            Jy_dx += pref * Jy[k] * dx\n            Jx_dz")),
        B("field sum drops the normal current", "R20.5", (SOLN, 'for name in ("supercurrent_density", "normal_current_density"):\n            J = (\n                getattr(self, name)', 'for name in ("supercurrent_density",):\n            J = (\n                getattr(self, name)')),
        B("cdist sends 3d euclidean to the squared kernel", "R20.7", (DIST, '            return euclidean_distance_3d(XA, XB)\n        return sqeuclidean_distance_3d(XA, XB)', '            return sqeuclidean_distance_3d(XA, XB)\n        return sqeuclidean_distance_3d(XA, XB)')),
        B("quadratic term in the current", "R20.3", (EM, "            Jx_dz += pref * Jx[k] * dz", "            Jx_dz += pref * Jx[k] * Jx[k] * dz")),
        B("loop direction radial", "R20.6", (EM, "phis = np.arctan2(positions[:, 1], positions[:, 0]) + np.pi / 2", "phis = np.arctan2(positions[:, 1], positions[:, 0])")),
        E("prefactor regrouped", (EM, "            pref = (\n                (mu_0 / (4 * np.pi))\n                * areas[k]\n                * (dx * dx + dy * dy + dz * dz) ** (-3 / 2)\n            )\n            Jx_dy += pref * Jx[k] * dy\n            Jy_dx += pref * Jy[k] * dx\n        Bz_out", "            r2 = dx * dx + dy * dy + dz * dz\n            pref = mu_0 * areas[k] / (4 * np.pi) / (r2 * np.sqrt(r2))\n            Jx_dy += pref * Jx[k] * dy\n            Jy_dx += pref * Jy[k] * dx\n        Bz_out")),
        E("loop magnitude with the sign moved inside", (EM, "mag = -mu_0 * current * a / (np.pi * m) * (((m - 2) * K + 2 * E)) / np.sqrt(denom)", "mag = mu_0 * current * a / (np.pi * m) * ((2 - m) * K - 2 * E) / np.sqrt(denom)")),
    ],
}



# variants derived from the rules added after the sub-agents' seeded changes -----------------------------------
CORPUS["C01"] += [
    B("loop over terminals stops at the first unchanged terminal", "R01.4", (SOLVER, "            if current_density != terminal_current_densities[terminal.name]:\n                terminal_current_densities[terminal.name] = current_density\n                self.mu_boundary[terminal.boundary_edge_indices] = current_density", "            if current_density == terminal_current_densities[terminal.name]:\n                break\n            terminal_current_densities[terminal.name] = current_density\n            self.mu_boundary[terminal.boundary_edge_indices] = current_density")),
    B("cache updated but boundary value not written", "R01.4", (SOLVER, "                self.mu_boundary[terminal.boundary_edge_indices] = current_density\n", "                pass\n")),
    E("change test spelled with == and continue", (SOLVER, "            if current_density != terminal_current_densities[terminal.name]:\n                terminal_current_densities[terminal.name] = current_density\n                self.mu_boundary[terminal.boundary_edge_indices] = current_density", "            if current_density == terminal_current_densities[terminal.name]:\n                continue\n            terminal_current_densities[terminal.name] = current_density\n            self.mu_boundary[terminal.boundary_edge_indices] = current_density")),
]
CORPUS["C10"] += [
    B("baseline only updated for static potentials", "R10.5", (SOLVER, "        self.current_A_applied = current_A_applied\n\n        # Update the value of epsilon", "            self.current_A_applied = current_A_applied\n\n        # Update the value of epsilon")),
    B("screening refresh moved behind the psi update", "R10.6", (SOLVER, "            if options.include_screening:\n                # Update the link variables in the covariant Laplacian and gradient\n                # for psi based on the induced vector potential from the previous iteration.\n                operators.set_link_exponents(current_A_applied + A_induced)\n", ""), (SOLVER, "            # Update the scalar potential, supercurrent density, and normal current density\n", "            if options.include_screening:\n                operators.set_link_exponents(current_A_applied + A_induced)\n            # Update the scalar potential, supercurrent density, and normal current density\n")),
]
CORPUS["C13"] += [
    B("screening loop bounded by range()", "R13.5", (SOLVER, "for screening_iteration in itertools.count():", "for screening_iteration in range(options.max_iterations_per_step + 1):")),
    B("screening sees only the supercurrent", "R13.3", (SOLVER, "supercurrent + normal_current, A_induced_vals, velocity", "supercurrent, A_induced_vals, velocity")),
]
CORPUS["C14"] += [
    B("Layer reader defaults falsy stored values", "R14.7", (LAYER, "            if key in h5_group.attrs:\n                return h5_group.attrs[key]\n            return default", "            return h5_group.attrs.get(key) or default")),
    B("Device equality through a truncating zip", "R14.8", (DEVICE, "            return sorted(seq1, key=key) == sorted(seq2, key=key)", "            return all(a == b for a, b in zip(sorted(seq1, key=key), sorted(seq2, key=key)))")),
    E("Device equality through zip with a length test", (DEVICE, "            return sorted(seq1, key=key) == sorted(seq2, key=key)", "            return len(seq1) == len(seq2) and all(a == b for a, b in zip(sorted(seq1, key=key), sorted(seq2, key=key)))")),
]
CORPUS["C19"] += [
    B("seed-device guard weakened by a truncating zip in Device.__eq__", "R19.3", (DEVICE, "            return sorted(seq1, key=key) == sorted(seq2, key=key)", "            return all(a == b for a, b in zip(sorted(seq1, key=key), sorted(seq2, key=key)))")),
]
CORPUS["C16"] += [
    B("cache key ignores z", "R16.8", (PARAM, "            + hashlib.sha1(np.ascontiguousarray(z)).hexdigest()\n", "            + hashlib.sha1(np.ascontiguousarray(y)).hexdigest()\n")),
    B("cache key ignores t", "R16.8", (PARAM, "            + hex(hash(t))\n", "")),
]
CORPUS["C20"] += [
    B("current densities scaled in place", "R20.8", (EM, "    current_densities = current_densities * to_amp_per_meter", "    current_densities *= to_amp_per_meter")),
    B("evaluation positions scaled in place in the loop potential", "R20.8", (EM, "    positions = np.atleast_2d(positions) * to_meter\n    loop_center = np.atleast_2d(loop_center) * to_meter\n    a = loop_radius * to_meter", "    positions = np.atleast_2d(positions)\n    positions *= to_meter\n    loop_center = np.atleast_2d(loop_center) * to_meter\n    a = loop_radius * to_meter")),
    E("shift of a fresh copy done in place", (EM, "    positions = positions - loop_center\n    # # This is a pint-friendly", "    positions -= loop_center\n    # # This is a pint-friendly")),
]
CORPUS["C07"] += [
    B("corner triangle through the signed triangle_areas helper", "R07.4", (UTIL, "            triangle_area, is_convex = get_convex_polygon_area(\n                np.concatenate([midpoints, [sites[site]]], axis=0)\n            )\n            assert is_convex  # This is just a triangle, so it must be convex.\n            areas[site] -= triangle_area", "            corner = np.array([midpoints[0], sites[site], midpoints[1]])\n            areas[site] -= triangle_areas(corner, np.array([[0, 1, 2]]))[0]")),
    E("corner triangle through abs of the signed helper", (UTIL, "            triangle_area, is_convex = get_convex_polygon_area(\n                np.concatenate([midpoints, [sites[site]]], axis=0)\n            )\n            assert is_convex  # This is just a triangle, so it must be convex.\n            areas[site] -= triangle_area", "            corner = np.array([midpoints[0], sites[site], midpoints[1]])\n            areas[site] -= abs(triangle_areas(corner, np.array([[0, 1, 2]]))[0])")),
]


# variants for the aliasing / effect rules added after the second round of seeded changes --------------------------------
JS_LINE = "        return (psi.conjugate()[self.edges[:, 0]] * (self.psi_gradient @ psi)).imag"
JS_BUF = (OPS, JS_LINE, "        if getattr(self, \"_js_buf\", None) is None:\n            self._js_buf = np.empty(len(self.edges), dtype=complex)\n        np.multiply(psi.conjugate()[self.edges[:, 0]], self.psi_gradient @ psi, out=self._js_buf)\n        return self._js_buf.imag")
JS_LOCAL = (OPS, JS_LINE, "        js = psi.conjugate()[self.edges[:, 0]] * (self.psi_gradient @ psi)\n        return js.imag")
JS_COPY = (OPS, JS_LINE, "        if getattr(self, \"_js_buf\", None) is None:\n            self._js_buf = np.empty(len(self.edges), dtype=complex)\n        np.multiply(psi.conjugate()[self.edges[:, 0]], self.psi_gradient @ psi, out=self._js_buf)\n        return self._js_buf.imag.copy()")
A_INPLACE = (SOLVER, "        A_induced = A_induced + velocity[-1]\n", "        A_induced += velocity[-1]\n")
DA_COPY = (SOLVER, "        dA = new_A_induced - A_induced\n", "        dA = new_A_induced.copy()\n        dA -= A_induced\n")
SQ_CACHED = [(SOLVER, "        old_sq_psi = xp.absolute(psi) ** 2\n", "        old_sq_psi = getattr(self, \"_abs_sq_psi\", None)\n        if old_sq_psi is None:\n            old_sq_psi = xp.absolute(psi) ** 2\n"),
             (SOLVER, "            # Update the scalar potential, supercurrent density, and normal current density\n", "            self._abs_sq_psi = abs_sq_psi\n            # Update the scalar potential, supercurrent density, and normal current density\n")]
MU_CACHED = [(SOLVER, "        old_sq_psi = xp.absolute(psi) ** 2\n", "        old_sq_psi = xp.absolute(psi) ** 2\n        if self.last_mu is not None:\n            mu = self.last_mu\n"),
             (SOLVER, "        running_state.append(\"dt\", dt)\n", "        running_state.append(\"dt\", dt)\n        self.last_mu = mu\n"),
             (SOLVER, "        operators.build_operators()\n        operators.set_link_exponents(current_A_applied)\n", "        operators.build_operators()\n        operators.set_link_exponents(current_A_applied)\n        self.last_mu = None\n")]
N_COUNTER = [(SOLVER, "        running_state.append(\"dt\", dt)\n", "        running_state.append(\"dt\", dt)\n        self.n_updates = getattr(self, \"n_updates\", 0) + 1\n")]
TRANSLATE_OLD = "            points = device.points\n            points += np.array([[dx, dy]])\n            device._create_dimensionless_mesh(points, device.triangles)"
MESH_SHIFT = (DEVICE, TRANSLATE_OLD, "            device.mesh.sites += np.array([[dx, dy]]) / device.coherence_length.magnitude")
MESH_SHIFT_X = (DEVICE, TRANSLATE_OLD, "            xs, ys = device.mesh.x, device.mesh.y\n            xs += dx / device.coherence_length.magnitude\n            ys += dy / device.coherence_length.magnitude")
MESH_REBIND = (DEVICE, TRANSLATE_OLD, "            mesh = device.mesh\n            mesh.sites = mesh.sites + np.array([[dx, dy]]) / device.coherence_length.magnitude")
TRANSLATE_FRESH = (DEVICE, TRANSLATE_OLD, "            points = device.points + np.array([[dx, dy]])\n            device._create_dimensionless_mesh(points, device.triangles)")
SMOOTH_INPLACE = [(MESH, "            # reset boundary points\n            new_sites[boundary] = sites[boundary]\n", "            # keep boundary points\n            interior = np.setdiff1d(np.arange(n), boundary)\n            sites[interior] = new_sites[interior]\n            new_sites = sites\n")]
NONE_LINKS = (SOLVER, "        operators.build_operators()\n        operators.set_link_exponents(current_A_applied)\n", "        operators.build_operators()\n        operators.set_link_exponents(current_A_applied if np.any(current_A_applied) else None)\n")
NONE_LINKS_VIA = (SOLVER, "        operators.build_operators()\n        operators.set_link_exponents(current_A_applied)\n", "        operators.build_operators()\n        A0 = None if not self.dynamic_vector_potential and not np.any(current_A_applied) else current_A_applied\n        operators.set_link_exponents(A0)\n")
ZERO_IS_NONE = [(OPS, "    if link_exponents is None:\n        link_variable_weights = np.ones(len(weights))\n    else:\n        link_variable_weights = np.exp(\n            -1j * np.einsum(\"ij, ij -> i\", link_exponents, edge_mesh.directions)\n        )\n    rows = np.concatenate([edge_indices, edge_indices])", "    if link_exponents is None or not np.any(link_exponents):\n        link_variable_weights = np.ones(len(weights))\n    else:\n        link_variable_weights = np.exp(\n            -1j * np.einsum(\"ij, ij -> i\", link_exponents, edge_mesh.directions)\n        )\n    rows = np.concatenate([edge_indices, edge_indices])")]
CORPUS["C01"] += [B("supercurrent returned as a view of a reused buffer", "R01.7", JS_BUF), E("supercurrent through a local", JS_LOCAL), E("reused buffer, result copied out", JS_COPY)]
CORPUS["C11"] += [B("supercurrent returned as a view of a reused buffer", "R11.6", JS_BUF), B("Polyak update in place", "R11.7", A_INPLACE),
                  B("|psi|^2 remembered from the previous call", "R11.8", *SQ_CACHED), B("mu remembered from the previous call", "R11.8", *MU_CACHED),
                  E("update counter kept on the solver", *N_COUNTER), E("difference computed in a fresh copy", DA_COPY), E("supercurrent through a local", JS_LOCAL)]
CORPUS["C15"] += [B("supercurrent returned as a view of a reused buffer", "R15.6", JS_BUF), B("Polyak update in place", "R15.7", A_INPLACE), E("reused buffer, result copied out", JS_COPY)]
CORPUS["C09"] += [B("Polyak update in place", "R09.6", A_INPLACE), E("difference computed in a fresh copy", DA_COPY)]
CORPUS["C02"] += [B("|psi|^2 remembered from the previous call", "R02.7", *SQ_CACHED), E("update counter kept on the solver", *N_COUNTER)]
CORPUS["C03"] += [B("smoothing relaxes the vertices of the mesh it was called on", "R03.8", *SMOOTH_INPLACE), B("translate shifts the shared mesh in place", "R03.8", MESH_SHIFT),
                  E("translate builds the shifted points without +=", TRANSLATE_FRESH)]
CORPUS["C07"] += [B("translate shifts the shared mesh in place", "R07.5", MESH_SHIFT), B("translate shifts the mesh through its x/y views", "R07.5", MESH_SHIFT_X),
                  B("translate rebinds mesh.sites", "R07.5", MESH_REBIND), E("translate builds the shifted points without +=", TRANSLATE_FRESH)]
CORPUS["C18"] += [B("translate shifts the shared mesh in place", "R18.6", MESH_SHIFT), E("translate builds the shifted points without +=", TRANSLATE_FRESH)]
CORPUS["C10"] += [B("zero potential treated like no potential in the gradient builder", "R10.1", *ZERO_IS_NONE), B("solver builds link-free operators for zero field", "R10.7", NONE_LINKS),
                  B("solver builds link-free operators for zero field (through a local)", "R10.7", NONE_LINKS_VIA)]
CORPUS["C04"] += [B("solver builds link-free operators for zero field", "R04.6", NONE_LINKS)]


# variants for the rules added after the second round, part 2 --------------------------------------------------------------
UNION_OLD = "        if not others:\n            return self.copy()\n        first, *rest = others\n        return Polygon(\n            name=name or self.name,\n            points=self._join_via(first, \"union\"),\n            mesh=self.mesh,\n        ).union(*rest, name=name)\n"
HELPER = "    def _join_many(self, others, operation, name=None):\n        polygon = %s\n        for other in others:\n            polygon = Polygon(\n                name=name or self.name,\n                points=polygon._join_via(other, operation),\n                mesh=self.mesh,\n            )\n        return polygon\n\n    def _join_via("
UNION_LOOP_SELF = [(POLY, UNION_OLD, "        return self._join_many(others, \"union\", name=name)\n"), (POLY, "    def _join_via(", HELPER % "self")]
UNION_LOOP_COPY = [(POLY, UNION_OLD, "        return self._join_many(others, \"union\", name=name)\n"), (POLY, "    def _join_via(", HELPER % "self.copy()")]
UNION_EMPTY_SELF = (POLY, UNION_OLD, UNION_OLD.replace("            return self.copy()\n", "            return self\n"))
GETSTATE_OLD = "        state = self.__dict__.copy()\n        # These attributes live in the __slots__ of Parameter, not in __dict__.\n"
GETSTATE_LIVE = (PARAM, GETSTATE_OLD, "        state = vars(self)\n")
GETSTATE_LIVE2 = (PARAM, GETSTATE_OLD, "        state = self.__dict__\n")
GETSTATE_DICT = (PARAM, GETSTATE_OLD, "        state = dict(vars(self))\n")
EXC_NARROW = (RUNNER, "        except BaseException:\n            # Never leave a partially written frame in the output file.", "        except Exception:\n            # Never leave a partially written frame in the output file.")
EXC_PAIR = (RUNNER, "        except BaseException:\n            # Never leave a partially written frame in the output file.", "        except (Exception, KeyboardInterrupt):\n            # Never leave a partially written frame in the output file.")
EXC_BARE = (RUNNER, "        except BaseException:\n            # Never leave a partially written frame in the output file.", "        except:  # noqa: E722\n            # Never leave a partially written frame in the output file.")
EXPORT_OLD = "            if h5path is None:\n                self._save_to_hdf5_file(self.path, save_mesh=save_mesh)\n            else:\n                shutil.copy(self.path, h5path)\n                self._save_to_hdf5_file(h5path, save_mesh=save_mesh)\n            return\n"
EXPORT_EXISTS = (SOLN, EXPORT_OLD, "            if h5path is None:\n                h5path = self.path\n            if not os.path.exists(h5path):\n                shutil.copy(self.path, h5path)\n            self._save_to_hdf5_file(h5path, save_mesh=save_mesh)\n            return\n")
EXPORT_MERGED = (SOLN, EXPORT_OLD, "            if h5path is None:\n                h5path = self.path\n            else:\n                shutil.copy(self.path, h5path)\n            self._save_to_hdf5_file(h5path, save_mesh=save_mesh)\n            return\n")
APPLIED_OLD = "        applied = (applied * ureg(f\"{self.field_units} * {device.length_units}\")).to(\n            units\n        )\n        if not with_units:\n            applied = applied.magnitude\n"
APPLIED_SKIP = (SOLN, APPLIED_OLD, "        if with_units:\n            applied = (applied * ureg(f\"{self.field_units} * {device.length_units}\")).to(units)\n")
APPLIED_SPLIT = (SOLN, APPLIED_OLD, "        applied = applied * ureg(f\"{self.field_units} * {device.length_units}\")\n        applied = applied.to(units)\n        if not with_units:\n            applied = applied.magnitude\n")
PLOT_MU = (("solution/plot_solution.py"), "    mu = mu - np.nanmin(mu)\n", "    mu -= np.nanmin(mu)\n")
CORPUS["C18"] += [B("set operations through a loop helper that starts from self", "R18.7", *UNION_LOOP_SELF), B("union of nothing returns self", "R18.7", UNION_EMPTY_SELF),
                  E("set operations through a loop helper that starts from a copy", *UNION_LOOP_COPY)]
CORPUS["C16"] += [B("__getstate__ fills the live attribute dictionary (vars)", "R16.9", GETSTATE_LIVE), B("__getstate__ fills the live attribute dictionary (__dict__)", "R16.9", GETSTATE_LIVE2),
                  E("__getstate__ copies with dict(vars(self))", GETSTATE_DICT)]
CORPUS["C14"] += [B("__getstate__ fills the live attribute dictionary", "R14.10", GETSTATE_LIVE), B("export copies the raw file only if the target does not exist", "R14.9", EXPORT_EXISTS),
                  E("export branches merged, copy kept unconditional", EXPORT_MERGED), E("__getstate__ copies with dict(vars(self))", GETSTATE_DICT)]
CORPUS["C15"] += [B("frame cleanup only for Exception", "R15.5", EXC_NARROW), E("frame cleanup for (Exception, KeyboardInterrupt)", EXC_PAIR), E("frame cleanup with a bare except", EXC_BARE)]
CORPUS["C20"] += [B("applied potential converted only when units are requested", "R20.9", APPLIED_SKIP), E("applied potential converted in two statements", APPLIED_SPLIT)]
CORPUS["C13"] += [B("Polyak update in place", "R13.7", A_INPLACE), E("difference computed in a fresh copy", DA_COPY)]
CORPUS["C11"] += [B("plotting shifts the solution's mu in place", "R11.7", PLOT_MU)]
CORPUS["C09"] += [B("plotting shifts the solution's mu in place", "R09.6", PLOT_MU)]


DT_GUARD = "            dt = np.concatenate(dts) if dts else np.array([], dtype=float)\n"
CORPUS["C15"] += [B("per-frame dt records concatenated without an emptiness guard", "R15.8", (DATA, DT_GUARD, "            dt = np.concatenate(dts)\n")),
                  B("mu records concatenated without an emptiness guard", "R15.8", (DATA, "            if mus:\n                mu = np.concatenate(mus, axis=1)[..., mask]\n", "            mu = np.concatenate(mus, axis=1)[..., mask]\n")),
                  E("dt guard spelled as a statement", (DATA, DT_GUARD, "            if dts:\n                dt = np.concatenate(dts)\n            else:\n                dt = np.array([], dtype=float)\n"))]


GLOBAL_CACHE = [(SOLVER, "logger = logging.getLogger(\"solver\")\n", "logger = logging.getLogger(\"solver\")\n_EPS_CACHE = {}\n"),
                (SOLVER, "        old_sq_psi = xp.absolute(psi) ** 2\n", "        old_sq_psi = xp.absolute(psi) ** 2\n        _EPS_CACHE[step] = epsilon\n")]
CLASS_COUNTER = [(SOLVER, "        old_sq_psi = xp.absolute(psi) ** 2\n", "        old_sq_psi = xp.absolute(psi) ** 2\n        TDGLSolver.last_step = step\n")]
LOCAL_DICT = [(SOLVER, "        old_sq_psi = xp.absolute(psi) ** 2\n", "        old_sq_psi = xp.absolute(psi) ** 2\n        seen = {}\n        seen[step] = dt\n")]
MUT_DEFAULT = [(SOLVER, "    def update_epsilon(self, time: float) -> np.ndarray:\n", "    def update_epsilon(self, time: float, _history=[]) -> np.ndarray:\n        _history.append(time)\n")]
CORPUS["C09"] += [B("module-level cache written by update()", "R09.8", *GLOBAL_CACHE), B("class attribute written by update()", "R09.8", *CLASS_COUNTER),
                  B("mutable default argument used as a history", "R09.7", *MUT_DEFAULT), E("a local dictionary in update()", *LOCAL_DICT)]
CORPUS["C11"] += [B("module-level cache written by update()", "R11.9", *GLOBAL_CACHE), E("a local dictionary in update()", *LOCAL_DICT)]


PATH_CACHED = [(POLY, "import logging\n", "import functools\nimport logging\n"),
               (POLY, "    @property\n    def path(self) -> path.Path:", "    @functools.cached_property\n    def path(self) -> path.Path:")]
PATH_CACHED_OK = PATH_CACHED + [(POLY, "    @points.setter\n    def points(self, points) -> None:\n", "    @points.setter\n    def points(self, points) -> None:\n        self.__dict__.pop(\"path\", None)\n")]
TRI_STALE = (DEVICE, "        # The cached matplotlib triangulation belongs to the previous mesh.\n        self._triangulation = None\n", "")
CORPUS["C18"] += [B("Polygon.path cached, points setter does not invalidate", "R18.8", *PATH_CACHED), B("triangulation memo not cleared with the mesh", "R18.8", TRI_STALE),
                  E("Polygon.path cached and invalidated by the points setter", *PATH_CACHED_OK)]
CORPUS["C06"] += [B("Polygon.path cached, points setter does not invalidate", "R06.5", *PATH_CACHED), E("Polygon.path cached and invalidated by the points setter", *PATH_CACHED_OK)]


MESHING = "device/meshing.py"
HOLE_MARK = "            np.array(Polygon(hole).centroid.coords[0]) - r0.squeeze()\n"
CORPUS["C07"] += [B("hole markers left in the user's frame", "R07.6", (MESHING, HOLE_MARK, "            np.array(Polygon(hole).centroid.coords[0])\n")),
                  B("boundary points compared across frames", "R07.6", (MESHING, "ensure_unique(boundary - r0)", "ensure_unique(boundary)")),
                  B("result not shifted back", "R07.6", (MESHING, "    points = np.array(mesh.points) + r0\n    triangles = np.array(mesh.elements)\n    if min_points is None", "    points = np.array(mesh.points)\n    triangles = np.array(mesh.elements)\n    if min_points is None")),
                  E("hole markers shifted through a local", (MESHING, HOLE_MARK, "            np.array(Polygon(hole).centroid.coords[0]) - r0[0]\n"))]
FINAL_OLD = "        if saved_times[-1] == times[-1]:\n"
CORPUS["C05"] += [B("final-frame test with np.isclose", "R05.10", (SOLN, FINAL_OLD, "        if np.isclose(saved_times[-1], times[-1]):\n")),
                  B("final-frame test with an absolute tolerance", "R05.10", (SOLN, FINAL_OLD, "        if abs(saved_times[-1] - times[-1]) < 1e-12:\n")),
                  E("final-frame test by index arithmetic", (SOLN, FINAL_OLD, "        if (len(times) - 1) % step == 0:\n"))]
ALLCLOSE_SKIP = (OPS, "        self.link_exponents = link_exponents\n", "        if self.psi_gradient is not None and self.link_exponents is not None and link_exponents is not None and np.allclose(link_exponents, self.link_exponents):\n            self.link_exponents = link_exponents\n            return\n        self.link_exponents = link_exponents\n")
CORPUS["C10"] += [B("refresh skipped for a potential within tolerance of the previous one", "R10.1", ALLCLOSE_SKIP)]
FLOOR = (SOLVER, "            denominator = xp.maximum(denominator, 1e-20, out=denominator)\n", "            floor = 1e-3 * float(xp.abs(self.operators.link_exponents).max())\n            denominator = xp.maximum(denominator, max(floor, 1e-20), out=denominator)\n")
CORPUS["C04"] += [B("screening error floor taken from the total vector potential", "R04.7", FLOOR),
                  B("psi scaled by the magnitude of the applied potential", "R04.7", (SOLVER, "        old_sq_psi = xp.absolute(psi) ** 2\n", "        old_sq_psi = xp.absolute(psi) ** 2 * (1 + 0 * xp.abs(current_A_applied).max())\n"))]


CORPUS["C15"] += [B("frame-writer failure cleaned up but not re-raised", "R15.9", (RUNNER, "            del self.time_step_group[name]\n            raise\n", "            del self.time_step_group[name]\n            return\n")),
                  B("update errors logged and skipped in the run loop", "R15.9", (RUNNER, "                    function_result = self.function(", "                    try:\n                        pass\n                    except Exception:\n                        continue\n                    function_result = self.function("))]


PSI_INPLACE = [(SOLVER, "        z = U * gamma**2 / 2 * psi\n", "        d_psi = (dt / u) * xp.sqrt(1 + gamma**2 * abs_sq_psi) * ((epsilon - abs_sq_psi) * psi + psi_laplacian @ psi)\n        psi *= U\n        z = gamma**2 / 2 * psi\n"),
               (SOLVER, "                w = z * abs_sq_psi + U * (\n                    psi\n                    + (dt / u)\n                    * xp.sqrt(1 + gamma**2 * abs_sq_psi)\n                    * ((epsilon - abs_sq_psi) * psi + psi_laplacian @ psi)\n                )\n", "                w = z * abs_sq_psi + psi + U * d_psi\n")]
PSI_ROTATED_COPY = [(SOLVER, "        z = U * gamma**2 / 2 * psi\n", "        d_psi = (dt / u) * xp.sqrt(1 + gamma**2 * abs_sq_psi) * ((epsilon - abs_sq_psi) * psi + psi_laplacian @ psi)\n        psi_rot = psi * U\n        z = gamma**2 / 2 * psi_rot\n"),
                    (SOLVER, "                w = z * abs_sq_psi + U * (\n                    psi\n                    + (dt / u)\n                    * xp.sqrt(1 + gamma**2 * abs_sq_psi)\n                    * ((epsilon - abs_sq_psi) * psi + psi_laplacian @ psi)\n                )\n", "                w = z * abs_sq_psi + psi_rot + U * d_psi\n")]
CORPUS["C02"] += [B("gauge rotation applied to psi in place", "R02.8", *PSI_INPLACE), E("gauge rotation applied to a fresh array", *PSI_ROTATED_COPY)]


# third round ---------------------------------------------------------------------------------------------------------------
ADAPT_OFF = (OPTIONS, "            raise SolverOptionsError(\"dt_init must be less than or equal to dt_max.\")\n", "            raise SolverOptionsError(\"dt_init must be less than or equal to dt_max.\")\n        if self.dt_init == self.dt_max:\n            self.adaptive = False\n")
CORPUS["C12"] += [B("validate() switches adaptivity off when dt_init == dt_max", "R12.6", ADAPT_OFF)]
CORPUS["C19"] += [B("validate() rewrites an option", "R19.4", ADAPT_OFF)]
CAST_OPT = (SOLN, "                if optional and field.name not in options_kwargs:\n                    options_kwargs[field.name] = None\n", "                if optional and field.name not in options_kwargs:\n                    options_kwargs[field.name] = None\n                elif field.name in options_kwargs and field.name == \"terminal_psi\":\n                    options_kwargs[field.name] = float(options_kwargs[field.name])\n")
CORPUS["C14"] += [B("restored option cast with float()", "R14.11", CAST_OPT)]
PROBE_OLD = "            points = [\n                affinity.scale(Point(xy), xfact=xfact, yfact=yfact, origin=origin)\n                for xy in device.probe_points\n            ]\n            device.probe_points = np.concatenate(\n                [point.coords for point in points], axis=0\n            )\n"
PROBE_INPLACE = (DEVICE, PROBE_OLD, "            for i, xy in enumerate(device.probe_points):\n                point = affinity.scale(Point(xy), xfact=xfact, yfact=yfact, origin=origin)\n                device.probe_points[i] = point.coords[0]\n")
PROBE_ARRAY = (DEVICE, PROBE_OLD, "            scaled = [affinity.scale(Point(xy), xfact=xfact, yfact=yfact, origin=origin).coords[0] for xy in device.probe_points]\n            device.probe_points = np.array(scaled, dtype=float)\n")
CORPUS["C18"] += [B("scaled probe points written back row by row", "R18.9", PROBE_INPLACE), E("scaled probe points rebound to a new float array", PROBE_ARRAY)]
ZS_OLD = "            zs = zs * np.ones(len(positions))\n"
CORPUS["C20"] += [B("heights created with full_like of the positions", "R20.10", (SOLN, ZS_OLD, "            zs = np.full_like(positions[:, 0], zs)\n")),
                  B("heights stored into zeros_like of the positions", "R20.10", (SOLN, ZS_OLD, "            heights = np.zeros_like(positions[:, 0])\n            heights[:] = zs\n            zs = heights\n")),
                  E("heights created with an explicit float dtype", (SOLN, ZS_OLD, "            zs = np.full_like(positions[:, 0], zs, dtype=float)\n")),
                  E("heights as ones_like times the value", (SOLN, ZS_OLD, "            zs = zs * np.ones_like(positions[:, 0])\n"))]
CLEAR_OLD = "        if isinstance(self.right, Parameter):\n            self.right._clear_cache()\n        if isinstance(self.left, Parameter):\n            self.left._clear_cache()\n"
CORPUS["C16"] += [B("cache clearing stops at a numeric operand", "R16.10", (PARAM, CLEAR_OLD, "        for operand in (self.left, self.right):\n            if not isinstance(operand, Parameter):\n                break\n            operand._clear_cache()\n")),
                  E("cache clearing as a loop with continue", (PARAM, CLEAR_OLD, "        for operand in (self.left, self.right):\n            if not isinstance(operand, Parameter):\n                continue\n            operand._clear_cache()\n"))]


CF_OLD = "        self.current_func = lambda t: {\n            key: J_scale * value for key, value in current_func(t).items()\n        }\n"
CF_STATEFUL = (SOLVER, CF_OLD, "        scaled_currents = {name: 0.0 for name in terminal_names}\n\n        def scaled_current_func(t):\n            for key, value in current_func(t).items():\n                scaled_currents[key] = J_scale * value\n            return scaled_currents\n\n        self.current_func = scaled_current_func\n")
CF_FRESH = (SOLVER, CF_OLD, "        def scaled_current_func(t):\n            scaled = {}\n            for key, value in current_func(t).items():\n                scaled[key] = J_scale * value\n            return scaled\n\n        self.current_func = scaled_current_func\n")
CORPUS["C09"] += [B("scaled currents kept in a dict captured by the closure", "R09.9", CF_STATEFUL), E("scaled currents built in a fresh dict by a nested def", CF_FRESH)]
CORPUS["C11"] += [B("scaled currents kept in a dict captured by the closure", "R11.10", CF_STATEFUL)]
CORPUS["C01"] += [E("scaled currents built in a fresh dict by a nested def", CF_FRESH)]


# fourth round ----------------------------------------------------------------------------------------------------------------
CORPUS["C03"] += [B("PARDISO branch keeps the transpose of the Laplacian", "R03.1", (OPS, "            self.mu_laplacian = sp.csc_matrix(self.mu_laplacian)\n            self.mu_laplacian_lu = None\n", "            self.mu_laplacian = sp.csc_matrix(self.mu_laplacian).T\n            self.mu_laplacian_lu = None\n")),
                  E("PARDISO branch converts through csr first", (OPS, "            self.mu_laplacian = sp.csc_matrix(self.mu_laplacian)\n            self.mu_laplacian_lu = None\n", "            self.mu_laplacian = sp.csc_matrix(sp.csr_matrix(self.mu_laplacian))\n            self.mu_laplacian_lu = None\n"))]
FRAMES_OLD = "            for i in range(step_min, step_max + 1):\n"
CORPUS["C05"] += [B("frames visited in lexicographic order of their names", "R05.11", (DATA, FRAMES_OLD, "            for i in sorted(k for k in h5file[\"data\"] if step_min <= int(k) <= step_max):\n")),
                  E("frames visited in numeric order through sorted(key=int)", (DATA, FRAMES_OLD, "            for i in sorted((k for k in h5file[\"data\"] if step_min <= int(k) <= step_max), key=int):\n"))]
HOLES_OLD = "            hole_coords=[hole.points for hole in self.holes],\n"
CORPUS["C07"] += [B("holes with mesh=False are not handed to the mesher", "R07.7", (DEVICE, HOLES_OLD, "            hole_coords=[hole.points for hole in self.holes if hole.mesh],\n")),
                  E("hole outlines collected in a local first", (DEVICE, "        points, triangles = generate_mesh(\n            self.film.points,\n" + HOLES_OLD, "        hole_outlines = [hole.points for hole in self.holes]\n        points, triangles = generate_mesh(\n            self.film.points,\n            hole_coords=hole_outlines,\n"))]
LOOP = "sources/loop.py"
CORPUS["C08"] += [B("CurrentLoop wrapper drops current_units", "R08.6", (LOOP, "        current_units=current_units,\n        length_units=length_units,\n    )\n    return A", "        length_units=length_units,\n    )\n    return A")),
                  B("CurrentLoop wrapper drops length_units", "R08.6", (LOOP, "        current_units=current_units,\n        length_units=length_units,\n    )\n    return A", "        current_units=current_units,\n    )\n    return A"))]
CORPUS["C10"] += [B("solve() resets the remembered potential to A(0)", "R10.8", (SOLVER, "        options = self.options\n        options.validate()\n", "        options = self.options\n        options.validate()\n        if self.dynamic_vector_potential:\n            self.current_A_applied = self.update_applied_vector_potential(0)\n"))]
CORPUS["C14"] += [B("edge mesh stores unit vectors under 'directions'", "R14.12", (EMESH, "        h5group[\"directions\"] = self.directions\n", "        h5group[\"directions\"] = self.normalized_directions\n")),
                  B("edge mesh stores lengths under swapped keys", "R14.12", (EMESH, "        h5group[\"edge_lengths\"] = self.edge_lengths\n        h5group[\"dual_edge_lengths\"] = self.dual_edge_lengths\n", "        h5group[\"edge_lengths\"] = self.dual_edge_lengths\n        h5group[\"dual_edge_lengths\"] = self.edge_lengths\n")),
                  B("options module postpones its annotations", "R14.2", (OPTIONS, "from dataclasses import dataclass\n", "from __future__ import annotations\n\nfrom dataclasses import dataclass\n"))]


MEMB_OLD = "        mask = self.film.contains_points(points, radius=radius) & ~np.logical_or.reduce(\n            [hole.contains_points(points, radius=-radius) for hole in self.holes]\n        )\n"
MEMB_LAST = (DEVICE, MEMB_OLD, "        points = np.atleast_2d(points)\n        mask = self.film.contains_points(points, radius=radius)\n        in_film = np.where(mask)[0]\n        for hole in self.holes:\n            mask[in_film] = ~hole.contains_points(points[in_film], radius=-radius)\n")
MEMB_LOOP = (DEVICE, MEMB_OLD, "        points = np.atleast_2d(points)\n        mask = self.film.contains_points(points, radius=radius)\n        in_film = np.where(mask)[0]\n        for hole in self.holes:\n            mask[in_film] &= ~hole.contains_points(points[in_film], radius=-radius)\n")
MEMB_AND = (DEVICE, MEMB_OLD, "        mask = self.film.contains_points(points, radius=radius)\n        for hole in self.holes:\n            mask = mask & ~hole.contains_points(points, radius=-radius)\n")
MEMB_ALL = (DEVICE, MEMB_OLD, MEMB_OLD.replace("np.logical_or.reduce", "np.logical_and.reduce"))
CORPUS["C18"] += [B("only the last hole is excluded (masked store in a loop)", "R18.5", MEMB_LAST), B("points must be in every hole to be excluded", "R18.5", MEMB_ALL),
                  E("holes excluded one by one with &= on the in-film selection", MEMB_LOOP), E("holes excluded one by one with &", MEMB_AND)]
K0_OLD = "        K0 = 4 * self.coherence_length * self.Bc2 / (ureg(\"mu_0\") * self.Lambda)\n        return K0.to_base_units()\n"
K0_MEMO = [(DEVICE, K0_OLD, "        if getattr(self, \"_K0\", None) is None:\n            K0 = 4 * self.coherence_length * self.Bc2 / (ureg(\"mu_0\") * self.Lambda)\n            self._K0 = K0.to_base_units()\n        return self._K0\n"),
           (DEVICE, "        self._triangulation: Optional[Triangulation] = None\n", "        self._triangulation: Optional[Triangulation] = None\n        self._K0 = None\n")]
K0_MEMO2 = [(DEVICE, K0_OLD, "        if self._K0 is None:\n            K0 = 4 * self.coherence_length * self.Bc2 / (ureg(\"mu_0\") * self.Lambda)\n            self._K0 = K0.to_base_units()\n        return self._K0\n"),
            (DEVICE, "        self._triangulation: Optional[Triangulation] = None\n", "        self._triangulation: Optional[Triangulation] = None\n        self._K0 = None\n")]
CORPUS["C13"] += [B("Device.K0 memoised on the device", "R13.9", *K0_MEMO2)]
CORPUS["C08"] += [B("Device.K0 memoised on the device", "R08.7", *K0_MEMO2)]
CORPUS["C01"] += [B("Device.K0 memoised on the device", "R01.8", *K0_MEMO2)]
CORPUS["C12"] += [B("adaptive_window and max_solve_retries declared in the other order", "R12.7", (OPTIONS, "    adaptive_window: int = 10\n    max_solve_retries: int = 10\n", "    max_solve_retries: int = 10\n    adaptive_window: int = 10\n"))]
CODE_CMP = "        if self.func.__code__ != other.func.__code__:\n"
CORPUS["C16"] += [B("leaf equality compares only co_code and co_consts", "R16.11", (PARAM, CODE_CMP, "        if (self.func.__code__.co_code, self.func.__code__.co_consts) != (other.func.__code__.co_code, other.func.__code__.co_consts):\n")),
                  E("leaf equality compares the functions themselves first", (PARAM, CODE_CMP, "        if self.func is not other.func and self.func.__code__ != other.func.__code__:\n"))]
CORPUS["C20"] += [B("positions handed to cdist as given", "R20.11", (SOLN, "        positions = np.atleast_2d(np.asarray(positions, dtype=float))\n", "        positions = np.atleast_2d(positions)\n")),
                  E("positions converted with astype(float)", (SOLN, "        positions = np.atleast_2d(np.asarray(positions, dtype=float))\n", "        positions = np.atleast_2d(positions).astype(float)\n"))]


PROBE_W = "            if self.probe_points is not None:\n                f[\"probe_points\"] = self.probe_points\n"
CORPUS["C14"] += [B("probe points written only for devices with terminals", "R14.13", (DEVICE, PROBE_W, "            if self.terminals and self.probe_points is not None:\n                f[\"probe_points\"] = self.probe_points\n")),
                  E("probe points guard spelled with a local", (DEVICE, PROBE_W, "            probes = self.probe_points\n            if probes is not None:\n                f[\"probe_points\"] = self.probe_points\n"))]
WARM = "            if step > window:\n"
CORPUS["C12"] += [B("adaptive rule gated by the record cursor", "R12.1", (SOLVER, WARM, "            if running_state.step > window:\n"))]
CORPUS["C17"] += [B("adaptive rule gated by the record cursor", "R17.6", (SOLVER, WARM, "            if running_state.step > window:\n"))]

# ---------------------------------------------------------------------------
# generic behaviour-preserving transformations of the anchor functions
# ---------------------------------------------------------------------------
ANCHORS = {
    "C01": [(SOLVER, "TDGLSolver.solve_for_observables"), (SOLVER, "TDGLSolver.update_mu_boundary"), (OPS, "build_divergence"),
            (OPS, "build_neumann_boundary_laplacian"), (DEVICE, "Device.terminal_info"), (SOLVER, "validate_terminal_currents")],
    "C02": [(SOLVER, "TDGLSolver.solve_for_psi_squared")],
    "C03": [(OPS, "build_divergence"), (OPS, "build_gradient"), (OPS, "build_laplacian"), (OPS, "build_neumann_boundary_laplacian"),
            (EMESH, "EdgeMesh.from_mesh"), (OPS, "MeshOperators.build_operators")],
    "C04": [(OPS, "MeshOperators.set_link_exponents"), (OPS, "build_gradient"), (OPS, "build_laplacian"), (SOLVER, "TDGLSolver.solve_for_psi_squared")],
    "C05": [(RUNNER, "Runner._run_stage"), (RUNNER, "Runner.run"), (RUNNER, "DataHandler._write_time_step"), (SOLN, "Solution.times"),
            (DATA, "DynamicsData.from_hdf5")],
    "C06": [(OPS, "build_laplacian"), (OPS, "MeshOperators.set_link_exponents"), (DEVICE, "Device.terminal_info")],
    "C07": [(UTIL, "generate_voronoi_vertices"), (UTIL, "get_edges"), (UTIL, "get_dual_edge_lengths"), (EMESH, "EdgeMesh.from_mesh")],
    "C08": [(CONST, "constant_field_vector_potential"), (EM, "uniform_Bz_vector_potential"), (DEVICE, "Device.K0")],
    "C09": [(SCREEN, "get_A_induced_numba"), (DIST, "euclidean_distance_2d"), (EM, "_biot_savart_2d_z"), (SOLVER, "validate_terminal_currents"),
            (RUNNER, "Runner._run_stage")],
    "C10": [(OPS, "MeshOperators.set_link_exponents"), (OPS, "MeshOperators.__init__"), (OPS, "build_laplacian")],
    "C11": [(RUNNER, "Runner._run_stage"), (RUNNER, "DataHandler._write_time_step")],
    "C12": [(SOLVER, "TDGLSolver.adaptive_euler_step")],
    "C13": [(SCREEN, "get_A_induced_numba"), (SOLVER, "TDGLSolver.get_induced_vector_potential")],
    "C14": [(LAYER, "Layer.from_hdf5"), (MESH, "Mesh.to_hdf5"), (MESH, "Mesh.from_hdf5"), (DEVICE, "Device.from_hdf5"), (DATA, "DynamicsData.from_hdf5")],
    "C15": [(RUNNER, "DataHandler._create_output_file"), (RUNNER, "DataHandler.save_time_step"), (RUNNER, "Runner._run_stage")],
    "C16": [(PARAM, "CompositeParameter.__init__"), (PARAM, "CompositeParameter.__call__")],
    "C17": [(OPS, "build_laplacian"), (SOLVER, "TDGLSolver.solve_for_psi_squared")],
    "C18": [(POLY, "Polygon._join_via"), (DEVICE, "Device.copy"), (DEVICE, "Device.contains_points")],
    "C19": [(OPTIONS, "SolverOptions.validate"), (SOLVER, "validate_terminal_currents")],
    "C20": [(EM, "_biot_savart_2d_vector"), (EM, "_biot_savart_2d_z"), (EM, "current_loop_vector_potential"), (EM, "convert_field"),
            (DIST, "euclidean_distance_3d"), (EM, "biot_savart_2d")],
}
for _p, _anchors in ANCHORS.items():
    for _f, _q in _anchors:
        CORPUS[_p].append(E(f"locals of {_q} renamed (AST transform, whole file re-emitted by ast.unparse)", (_f, "@rename_locals", _q)))
        CORPUS[_p].append(E(f"operands of every product in {_q} swapped (AST transform)", (_f, "@commute_mult", _q)))
    _files = sorted({f for f, _ in _anchors})
    CORPUS[_p].append(E("anchor files round-tripped through ast.unparse (comments dropped, all line numbers moved)",
                        *[(f, "@reformat", "") for f in _files]))


# ---------------------------------------------------------------------------
# whole-package robustness sweep: every function of one file renamed / commuted at once, for every property
# (the checks read far more functions than their anchors; tools/robust_sweep.py runs the same sweep by hand)
# ---------------------------------------------------------------------------
# defects 20 / 21: the options the loop divides by, and the sign of the first step
DT_POS = "        if self.dt_init <= 0:\n"
SE_POS = "        if self.save_every < 1:\n"
CORPUS["C19"] += [
    B("dt_init = 0 accepted", "R19.7", (OPTIONS, DT_POS, "        if self.dt_init < 0:\n")),
    B("negative dt_init accepted", "R19.7", (OPTIONS, DT_POS, "        if self.dt_init == 0:\n")),
    B("save_every = 0 accepted", "R19.7", (OPTIONS, SE_POS, "        if self.save_every < 0:\n")),
    B("negative save_every accepted", "R19.7", (OPTIONS, SE_POS, "        if self.save_every == 0:\n")),
    B("progress interval used as a modulus without its guard", "R19.7", (RUNNER, "if prog_disabled and (i % self.options.progress_interval) == 0:", "if (i % self.options.progress_interval) == 0 and prog_disabled:")),
    E("dt_init guard spelled with not", (OPTIONS, DT_POS, "        if not self.dt_init > 0:\n")),
    E("save_every guard spelled <= 0", (OPTIONS, SE_POS, "        if self.save_every <= 0:\n")),
]
CORPUS["C12"] += [
    B("dt_init = 0 accepted", "R12.5", (OPTIONS, DT_POS, "        if self.dt_init < 0:\n")),
    E("dt_init guard spelled with not", (OPTIONS, DT_POS, "        if not self.dt_init > 0:\n")),
]

# defect 22: the balance test must not let a nan sum through
CORPUS["C19"] += [
    B("balance test lets nan through", "R19.3", (SOLVER, "        if not abs(total_current) <= tolerance:\n", "        if abs(total_current) > tolerance:\n")),
    E("balance test with isfinite", (SOLVER, "        if not abs(total_current) <= tolerance:\n", "        if not (np.isfinite(total_current) and abs(total_current) <= tolerance):\n")),
]

# from the systematic mutation sweep (tools/mutation_sweep.py): survivors that were gaps
CORPUS["C13"] += [
    B("Polyak update reads velocity[1] instead of the latest velocity (right only in the first iteration of a step)", "R13.4",
      (SOLVER, "        A_induced = A_induced + velocity[-1]\n", "        A_induced = A_induced + velocity[1]\n")),
    E("velocity history trimmed to its last entry", (SOLVER, "            del velocity[:-2]\n", "            del velocity[:-1]\n")),
]

CORPUS["C05"] += [
    B("frame labels are not written into the frame group", "R05.14", (RUNNER, "            group.attrs[key] = value\n", "            pass\n")),
]

def _package_files():
    import ast as _ast
    from ..src import repo_root as _rr
    root = _rr() / "tdgl"
    out = []
    for p in sorted(root.rglob("*.py")):
        if "test" in p.parts or p.name == "__init__.py":
            continue
        try:
            t = _ast.parse(p.read_text())
        except SyntaxError:
            continue
        if any(isinstance(n, (_ast.FunctionDef, _ast.ClassDef)) for n in t.body):
            out.append(str(p.relative_to(root)))
    return out


for _f in _package_files():
    for _p in CORPUS:
        CORPUS[_p].append(E(f"sweep: locals of every function in {_f} renamed", (_f, "@rename_all", "")))
        CORPUS[_p].append(E(f"sweep: products of every function in {_f} commuted", (_f, "@commute_all", "")))
        CORPUS[_p].append(E(f"sweep: comparisons of every function in {_f} mirrored (a < b -> b > a)", (_f, "@swapcmp_all", "")))
        CORPUS[_p].append(E(f"sweep: if/else of every function in {_f} flipped (if c: A else: B -> if not c: B else: A)", (_f, "@flipif_all", "")))
        CORPUS[_p].append(E(f"sweep: every returned expression of {_f} through a temporary", (_f, "@tempret_all", "")))
        CORPUS[_p].append(E(f"sweep: every value stored to self.<attr> in {_f} through a temporary", (_f, "@tempattr_all", "")))
        CORPUS[_p].append(E(f"sweep: alias locals of {_f} (options = self.options ...) inlined", (_f, "@inline_all", "")))


# ---------------------------------------------------------------------------
# behaviour-preserving refactorings written by hand (pvs/selftest/refactors/*.diff: extract method, table-driven rewrites, loop
# re-spellings, early returns ...; each was confirmed against the test-suite when it was written).  Every check must stay silent
# on every one of them; a patch that no longer applies to the current tree is skipped.
# ---------------------------------------------------------------------------
def _refactor_patches():
    from pathlib import Path as _P
    return sorted(_P(__file__).with_name("refactors").glob("*.diff"))


for _d in _refactor_patches():
    for _p in CORPUS:
        CORPUS[_p].append(E(f"refactoring patch {_d.stem}", ("", "@patch", str(_d))))


# ---------------------------------------------------------------------------
# the seeded changes (/verif/seeded/<id>/patch.diff, written by sub-agents that saw only the property text and confirmed by a demo
# against the real code): each is a breaking variant for every property whose check reported it when the seeds were last re-run
# (tools/recheck_seeds.py records that in meta.json).  A patch that no longer applies to the current tree is skipped.
# ---------------------------------------------------------------------------
def _seeded_changes():
    import json as _json
    from pathlib import Path as _P
    root = _P(__file__).resolve().parents[2] / "seeded"
    out = []
    if not root.is_dir():
        return out
    for d in sorted(root.iterdir()):
        mp, pd = d / "meta.json", d / "patch.diff"
        if not (mp.exists() and pd.exists()):
            continue
        try:
            fired = _json.load(open(mp)).get("confirmation", {}).get("checks_fired", {})
        except ValueError:
            continue
        for prop, v in fired.items():
            if v.get("exit") == 1:
                out.append((prop, d.name, str(pd)))
    return out


for _p, _name, _patch in _seeded_changes():
    if _p in CORPUS:
        CORPUS[_p].append(B(f"seeded change {_name}", None, ("", "@patch", _patch)))
