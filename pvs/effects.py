"""Effect / aliasing rules shared by several properties.

Each function takes the rule id under which the calling property registers the obligations, so that the same analysis can
support different properties (the report text says what breaks for that property).
"""
from __future__ import annotations

import ast
from typing import Dict, List, Optional, Set

from .alias import analyse
from .callgraph import CallGraph
from .src import AnalysisError, loc, norm, own_nodes

SOLVER = "tdgl.solver.solver"
OPS = "tdgl.finite_volume.operators"

# Functions whose contract is to fill an array handed in by the caller (confirmed by reading; one line of reason each).
OUTPUT_PARAMS = {
    "tdgl.finite_volume.operators:_spmatrix_set_many": ("spmatrix", "in-place refresh of the operators: the point of the function (C10)"),
    "tdgl.solver.screening:get_A_induced_numba": ("A_induced", "numba kernel fills the caller's preallocated output buffer"),
    "tdgl.solver.screening:get_A_induced_cupy": ("A_induced", "cupy kernel fills the caller's preallocated output buffer"),
}
PURITY_SKIP_MODULES = ("tdgl.test", "tdgl.visualization")     # plotting mutates axes/frames counters, not physics arrays


def _is_kernel(f) -> bool:
    return any("jit" in norm(d) for d in f.node.decorator_list)


def storage_attrs(repo) -> Set[str]:
    """Attribute names through which an object hands out its own storage: fields annotated as arrays and fields holding
    instances of the package's own classes (collected from dataclass fields and `self.x: T = ...` / `self.x = param` in __init__)."""
    out: Set[str] = set()
    class_names = set()
    for m in repo.modules.values():
        if m.name.startswith("tdgl.test"):
            continue
        for c in m.classes.values():
            class_names.add(c.name)
    for m in repo.modules.values():
        if m.name.startswith("tdgl.test"):
            continue
        for c in m.classes.values():
            props = {n for n, f in c.methods.items() if any(norm(d) == "property" for d in f.node.decorator_list)}

            def arrayish(ann) -> bool:
                t = norm(ann)
                return "ndarray" in t or any(k in t.replace("'", "").replace('"', "") for k in class_names if len(k) > 3)
            for st in c.node.body:
                if isinstance(st, ast.AnnAssign) and isinstance(st.target, ast.Name) and arrayish(st.annotation):
                    out.add(st.target.id)
            init = c.methods.get("__init__")
            if init is not None:
                ann = {a.arg: a.annotation for a in init.node.args.args + init.node.args.kwonlyargs if a.annotation is not None}
                for st in own_nodes(init.node):
                    if isinstance(st, ast.AnnAssign) and isinstance(st.target, ast.Attribute) and arrayish(st.annotation):
                        out.add(st.target.attr)
                    if isinstance(st, ast.Assign) and isinstance(st.value, ast.Name) and st.value.id in ann and arrayish(ann[st.value.id]):
                        for t in st.targets:
                            if isinstance(t, ast.Attribute) and isinstance(t.value, ast.Name) and t.value.id == "self":
                                out.add(t.attr)
            out -= props & out if False else set()
    return out


def input_purity(ctx, rule: str, consequence: str, min_functions: int = 150, modules: tuple = (), functions: tuple = ()):
    """No function of the package (or of the given module prefixes) modifies (a view of) an array it was handed, except the
    frozen output-parameter table."""
    repo = ctx.repo
    through = storage_attrs(repo)
    ctx.note("storage_attributes", sorted(through))
    n = 0
    seen_out = set()
    out_names = {fq.split(":")[1]: fq for fq in OUTPUT_PARAMS}
    for f in repo.all_functions():
        if any(f.module.name.startswith(m) for m in PURITY_SKIP_MODULES):
            continue
        if modules and not any(f.module.name.startswith(m) for m in modules) and not (functions and f.qual in functions):
            continue
        if functions and not modules and f.qual not in functions:
            continue
        n += 1
        res = analyse(f.node, through_attrs=through)
        bad = []
        for node, lab, what in res.writes:
            if f.fq in OUTPUT_PARAMS and OUTPUT_PARAMS[f.fq][0] == lab:
                seen_out.add(f.fq)
                continue
            bad.append((node, lab, what))
        # passing one's own parameter on as the output buffer of an output-parameter function is a write, too
        params = {a.arg for a in f.node.args.args + f.node.args.kwonlyargs + f.node.args.posonlyargs} - {"self", "cls"}
        for c in own_nodes(f.node):
            if isinstance(c, ast.Call):
                nm = c.func.attr if isinstance(c.func, ast.Attribute) else getattr(c.func, "id", "")
                if nm in out_names and f.fq != out_names[nm]:
                    tgt = repo.func(*out_names[nm].split(":"))
                    pnames = [a.arg for a in tgt.node.args.args]
                    idx = pnames.index(OUTPUT_PARAMS[out_names[nm]][0])
                    arg = c.args[idx] if idx < len(c.args) else None
                    if isinstance(arg, ast.Name) and arg.id in params and not (f.fq in OUTPUT_PARAMS and OUTPUT_PARAMS[f.fq][0] == arg.id):
                        bad.append((c, arg.id, f"output buffer of {nm}"))
        for node, lab, what in bad:
            ctx.ob(rule, f"{f.qual} writes into its argument {lab}", False, where=f.fq,
                   construct=f"in-place write to argument `{lab}` in {f.qual}: {what}", loc=loc(f, node),
                   message=f"{f.qual} modifies (a view of) its argument `{lab}` in place: L{node.lineno} `{norm(node)[:80]}` ({what})",
                   consequence=consequence, witness={"statement": norm(node)[:120], "argument": lab})
    ctx.ob(rule, f"{n} functions scanned: none writes into an array argument (output-parameter table: {len(OUTPUT_PARAMS)} entries)",
           True, detail={"functions": n, "output_parameters": {k: v[1] for k, v in OUTPUT_PARAMS.items()}}, where="package",
           construct="input purity (package)")
    if n < min_functions:
        raise AnalysisError(f"input purity scanned only {n} functions")
    missing = sorted(set(OUTPUT_PARAMS) - seen_out)
    if missing:
        ctx.note("output_params_without_write", missing)


# attributes that hold immutable scalars, not arrays: handing them out shares nothing (confirmed by reading every assignment)
SCALAR_ATTRS = {
    "tentative_dt": "options.dt_init, or np.clip of scalars: a float / numpy scalar",
    "dt_max": "options.dt_max or options.dt_init: a float",
    "u": "device.layer.u: a float", "gamma": "device.layer.gamma: a float",
    "num_edges": "len(...): an int",
}


def _self_root(e):
    if isinstance(e, ast.Attribute) and isinstance(e.value, ast.Name) and e.value.id == "self" and e.attr not in SCALAR_ATTRS:
        return "self." + e.attr
    return None


def fresh_outputs(ctx, rule: str, consequence: str):
    """No method of TDGLSolver / MeshOperators returns (a view of) an array held in an attribute."""
    repo = ctx.repo
    n = 0
    for mod, cname in ((SOLVER, "TDGLSolver"), (OPS, "MeshOperators")):
        cls = repo.cls(mod, cname)
        for mname, f in cls.methods.items():
            if any(norm(d) in ("property", "functools.cached_property", "cached_property") for d in f.node.decorator_list):
                continue
            n += 1
            res = analyse(f.node, roots_params=False, root_expr=_self_root)
            rets = [r for r in res.returns]
            has_ret = any(isinstance(x, ast.Return) and x.value is not None for x in own_nodes(f.node))
            ctx.ob(rule, f"{f.qual} returns fresh values only", not rets, nontrivial=has_ret,
                   detail=[f"L{r.lineno}: return ... {txt} aliases {lab}" for r, lab, txt in rets], where=f.fq,
                   construct=f"{f.qual} returns a view of an attribute-held buffer", loc=loc(f, rets[0][0] if rets else f.node),
                   message=f"{f.qual} returns `{rets[0][2] if rets else ''}`, which may be (a view of) the persistent array "
                           f"`{rets[0][1] if rets else ''}`: the next call overwrites what the caller still holds",
                   consequence=consequence,
                   witness={"returned": rets[0][2], "aliases": rets[0][1]} if rets else None)
    if n < 12:
        raise AnalysisError(f"fresh-output rule found only {n} methods")


# state the solver deliberately carries from one update() call to the next (confirmed by reading; one line of reason each)
CARRIED_STATE = {
    "tentative_dt": "adaptive step proposal for the next step (documented; reset at the start of solve())",
    "d_psi_sq_vals": "adaptive-step history window (documented; reset at the start of solve())",
    "current_A_applied": "baseline of the 'has A changed' guard, compared exactly (C10 R10.5)",
    "epsilon": "time-dependent disorder parameter, recomputed from `time` before use when dynamic",
    "terminal_current_densities": "cache of terminal currents keyed by value (C01 R01.4 enumerates hit/miss)",
    "mu_boundary": "boundary condition buffer, rewritten for every terminal whose current changed (C01 R01.4)",
}


def cross_call_state(ctx, rule: str, consequence: str):
    """Attributes that TDGLSolver.update (and the methods it calls on self) both writes and reads are state carried across
    calls; the set must stay within the confirmed table: anything else is hidden state that goes stale when update() is
    handed a state it did not produce itself (second solve(), resume, retry after an interrupt)."""
    repo = ctx.repo
    cls = repo.cls(SOLVER, "TDGLSolver")
    # methods reachable from update through self.<method>() calls
    reach, todo = set(), ["update"]
    while todo:
        m = todo.pop()
        if m in reach or m not in cls.methods:
            continue
        reach.add(m)
        for c in own_nodes(cls.methods[m].node):
            if isinstance(c, ast.Call) and isinstance(c.func, ast.Attribute) and isinstance(c.func.value, ast.Name) \
                    and c.func.value.id == "self":
                todo.append(c.func.attr)
    if len(reach) < 6:
        raise AnalysisError(f"update() reaches only {sorted(reach)} on self")
    writes: Dict[str, List[str]] = {}
    reads: Dict[str, List[str]] = {}
    for m in sorted(reach):
        f = cls.methods[m]
        res = analyse(f.node, roots_params=False, root_expr=_self_root)
        for node, lab, what in res.writes:
            writes.setdefault(lab[5:], []).append(f"{m} L{node.lineno}: {what}")
        # loads that do not count as "reading the carried value": the right-hand side of the attribute's own update
        # (self.n = self.n + 1) and arguments of logging / warning calls
        ignore = set()
        for st in own_nodes(f.node):
            if isinstance(st, (ast.Assign, ast.AnnAssign, ast.AugAssign)):
                tg = st.targets if isinstance(st, ast.Assign) else [st.target]
                own = {t.attr for t in tg if isinstance(t, ast.Attribute) and _self_root(t)}
                if own and st.value is not None:
                    for y in ast.walk(st.value):
                        if isinstance(y, ast.Attribute) and _self_root(y) and y.attr in own:
                            ignore.add(id(y))
                        if isinstance(y, ast.Call) and getattr(y.func, "id", "") == "getattr" and len(y.args) >= 2 \
                                and isinstance(y.args[1], ast.Constant) and y.args[1].value in own:
                            ignore.add(id(y))
            if isinstance(st, ast.Call) and isinstance(st.func, ast.Attribute) and (
                    norm(st.func.value) in ("logger", "logging", "warnings") or st.func.attr in ("warn", "debug", "info", "warning")):
                for y in ast.walk(st):
                    ignore.add(id(y))
        for x in own_nodes(f.node):
            if id(x) in ignore:
                continue
            if isinstance(x, ast.Attribute) and isinstance(x.value, ast.Name) and x.value.id == "self":
                if isinstance(x.ctx, ast.Store):
                    writes.setdefault(x.attr, []).append(f"{m} L{x.lineno}: self.{x.attr} = ...")
                elif isinstance(x.ctx, ast.Load):
                    reads.setdefault(x.attr, []).append(f"{m} L{x.lineno}")
            # reads / writes spelled with getattr / setattr
            if isinstance(x, ast.Call) and getattr(x.func, "id", "") in ("getattr", "setattr") and len(x.args) >= 2 \
                    and isinstance(x.args[0], ast.Name) and x.args[0].id == "self" and isinstance(x.args[1], ast.Constant):
                (reads if x.func.id == "getattr" else writes).setdefault(str(x.args[1].value), []).append(f"{m} L{x.lineno}: {x.func.id}()")
            # history containers mutated through methods
            if isinstance(x, ast.Call) and isinstance(x.func, ast.Attribute) and x.func.attr in ("append", "extend", "pop", "clear", "update", "insert") \
                    and _self_root(x.func.value):
                writes.setdefault(x.func.value.attr, []).append(f"{m} L{x.lineno}: .{x.func.attr}()")
    carried = sorted(a for a in writes if a in reads and a not in cls.methods)
    ctx.note("carried_state", {a: writes[a][:3] for a in carried})
    for a in carried:
        ok = a in CARRIED_STATE
        ctx.ob(rule, f"state carried across update() calls: self.{a}", ok, detail={"writes": writes[a][:4], "reads": reads[a][:4],
                                                                                   "reason": CARRIED_STATE.get(a)},
               where=f"{SOLVER}:TDGLSolver.update", construct=f"hidden solver state self.{a}", loc=loc(cls.methods["update"], cls.methods["update"].node),
               message=f"update() keeps `self.{a}` from one call to the next ({writes[a][0]}; read at {reads[a][0]}); it is not part of the "
                       f"state handed in (psi, mu, currents, A_induced) and is not in the table of confirmed carried state",
               consequence=consequence, witness={"attribute": a, "written": writes[a][:2], "read": reads[a][:2]})
    if len(carried) < 4:
        raise AnalysisError(f"carried-state analysis found only {carried}")


def _class_attrs(cls) -> Set[str]:
    out = set()
    init = cls.methods.get("__init__")
    if init is None:
        return out
    for x in own_nodes(init.node):
        if isinstance(x, ast.Attribute) and isinstance(x.ctx, ast.Store) and isinstance(x.value, ast.Name) and x.value.id == "self":
            out.add(x.attr)
    return out


def mesh_immutable(ctx, rule: str, consequence: str):
    """Mesh / EdgeMesh objects are shared (Device.copy, Solution, solver, operators) and their geometry arrays are mutually
    dependent (areas, edge lengths, dual edges are computed from `sites` once): nothing may write them after construction."""
    repo = ctx.repo
    mesh_cls = repo.cls("tdgl.finite_volume.mesh", "Mesh")
    edge_cls = repo.cls("tdgl.finite_volume.edge_mesh", "EdgeMesh")
    m_attrs = {a for a in _class_attrs(mesh_cls) if not a.startswith("_")}
    e_attrs = {a for a in _class_attrs(edge_cls) if not a.startswith("_")}
    if len(m_attrs) < 6 or len(e_attrs) < 5:
        raise AnalysisError(f"mesh attribute tables too small: {sorted(m_attrs)} / {sorted(e_attrs)}")
    ctx.note("mesh_attributes", {"Mesh": sorted(m_attrs), "EdgeMesh": sorted(e_attrs)})
    # properties that hand out a view of a geometry array (Mesh.x -> sites[:, 0]) are roots as well
    view_props = {}
    for k, c in (("Mesh", mesh_cls), ("EdgeMesh", edge_cls)):
        for mname, mf in c.methods.items():
            if any(norm(d) == "property" for d in mf.node.decorator_list):
                r = analyse(mf.node, roots_params=False, root_expr=_self_root)
                for _, lab, _txt in r.returns:
                    if lab[5:] in (m_attrs if k == "Mesh" else e_attrs):
                        view_props[(k, mname)] = lab[5:]
    ctx.note("mesh_view_properties", {f"{k}.{p_}": a for (k, p_), a in view_props.items()})
    geom = m_attrs | e_attrs
    ctors = {f"{mesh_cls.fq}.__init__", f"{edge_cls.fq}.__init__"}
    n = 0
    findings = 0
    for f in repo.all_functions():
        if f.module.name.startswith("tdgl.test"):
            continue
        n += 1
        env = repo.local_types(f)
        in_mesh_class = f.cls is not None and f.cls.name in ("Mesh", "EdgeMesh")

        def meshlike(e) -> Optional[str]:
            """Is expression e a Mesh / EdgeMesh object?"""
            t = repo.expr_type(f, e, env)
            tn = t.split(":")[-1] if t else None
            if tn in ("Mesh", "EdgeMesh"):
                return tn
            if isinstance(e, ast.Attribute) and e.attr in ("mesh", "edge_mesh"):
                return "Mesh" if e.attr == "mesh" else "EdgeMesh"
            if isinstance(e, ast.Name):
                if e.id == "self" and in_mesh_class:
                    return f.cls.name
                # a local bound once to <x>.mesh / <x>.edge_mesh
                for st in own_nodes(f.node):
                    if isinstance(st, ast.Assign) and any(isinstance(t_, ast.Name) and t_.id == e.id for t_ in st.targets):
                        v = st.value
                        if isinstance(v, ast.Attribute) and v.attr in ("mesh", "edge_mesh"):
                            return "Mesh" if v.attr == "mesh" else "EdgeMesh"
            return None

        def root(e):
            if isinstance(e, ast.Attribute) and e.attr in geom:
                k = meshlike(e.value)
                if k and e.attr in (m_attrs if k == "Mesh" else e_attrs):
                    return f"{k}.{e.attr}"
            if isinstance(e, ast.Attribute) and any(e.attr == p_ for (_, p_) in view_props):
                k = meshlike(e.value)
                if k and (k, e.attr) in view_props:
                    return f"{k}.{view_props[(k, e.attr)]}"
            return None
        if f.fq in ctors:
            continue
        bad = []
        # (i) attribute stores on a mesh object
        for x in own_nodes(f.node):
            if isinstance(x, ast.Attribute) and isinstance(x.ctx, (ast.Store, ast.Del)) and x.attr in geom:
                k = meshlike(x.value)
                if k and x.attr in (m_attrs if k == "Mesh" else e_attrs):
                    bad.append((x, f"{k}.{x.attr}", f"{ast.unparse(x)} = ... (attribute rebound after construction)"))
        # (ii) in-place writes through aliases of the geometry arrays
        res = analyse(f.node, roots_params=False, root_expr=root)
        for node, lab, what in res.writes:
            bad.append((node, lab, what))
        for node, lab, what in bad:
            findings += 1
            ctx.ob(rule, f"{f.qual} writes {lab}", False, where=f.fq, construct=f"write to {lab} in {f.qual}", loc=loc(f, node),
                   message=f"{f.qual} modifies `{lab}` of an existing mesh: L{node.lineno} {what}",
                   consequence=consequence, witness={"statement": what, "attribute": lab})
    ctx.ob(rule, f"{n} functions scanned: Mesh/EdgeMesh geometry is written by the constructors only", True,
           detail={"functions": n, "attributes": len(geom)}, where="package", construct="mesh immutability (package)")
    return findings


SERIALISERS = ("__getstate__", "__reduce__", "__reduce_ex__", "to_hdf5", "_save_to_hdf5_file", "__getnewargs__", "__copy__", "__deepcopy__", "copy")
DICT_MUTATORS = ("update", "pop", "popitem", "setdefault", "clear", "__setitem__", "__delitem__")


def serialisers_pure(ctx, rule: str, consequence: str, classes: tuple = (), floor: int = 8):
    """Methods that serialise or copy an object leave the object itself untouched: no store to its attributes and no
    mutation of its live attribute dictionary (`vars(self)`, `self.__dict__`)."""
    repo = ctx.repo
    n = 0
    for f in repo.all_functions():
        if f.cls is None or f.module.name.startswith("tdgl.test") or f.node.name not in SERIALISERS:
            continue
        if classes and f.cls.name not in classes:
            continue
        if not f.node.args.args:
            continue
        me = f.node.args.args[0].arg
        n += 1

        def root(e):
            if isinstance(e, ast.Attribute) and e.attr == "__dict__" and isinstance(e.value, ast.Name) and e.value.id == me:
                return "the live attribute dictionary"
            if isinstance(e, ast.Call) and getattr(e.func, "id", "") == "vars" and len(e.args) == 1 and isinstance(e.args[0], ast.Name) \
                    and e.args[0].id == me:
                return "the live attribute dictionary"
            return None
        res = analyse(f.node, roots_params=False, root_expr=root)
        bad = [(node, what) for node, lab, what in res.writes]
        # dict mutators on an alias of the live dictionary: found by re-running the alias walk on method calls
        live = set()
        for st in own_nodes(f.node):
            if isinstance(st, ast.Assign) and root(st.value):
                live |= {t.id for t in st.targets if isinstance(t, ast.Name)}
        for c in own_nodes(f.node):
            if isinstance(c, ast.Call) and isinstance(c.func, ast.Attribute) and c.func.attr in DICT_MUTATORS:
                v = c.func.value
                if root(v) or (isinstance(v, ast.Name) and v.id in live):
                    bad.append((c, f".{c.func.attr}() on the live attribute dictionary"))
            if isinstance(c, ast.Attribute) and isinstance(c.ctx, (ast.Store, ast.Del)) and isinstance(c.value, ast.Name) and c.value.id == me:
                bad.append((c, f"{norm(c)} = ..."))
            if isinstance(c, ast.Call) and getattr(c.func, "id", "") in ("setattr", "delattr") and c.args and isinstance(c.args[0], ast.Name) \
                    and c.args[0].id == me:
                bad.append((c, norm(c)[:60]))
        ctx.ob(rule, f"{f.qual} does not modify the object it serialises / copies", not bad,
               detail=[f"L{b.lineno}: {w}" for b, w in bad], where=f.fq, construct=f"{f.qual} mutates self", loc=loc(f, bad[0][0] if bad else f.node),
               message=f"{f.qual} modifies the object itself: " + "; ".join(f"L{b.lineno}: {w}" for b, w in bad[:3]),
               consequence=consequence, witness={"writes": [w for _, w in bad[:3]]} if bad else None)
    if n < floor:
        raise AnalysisError(f"serialiser purity: only {n} methods found")


def may_return_self(cls) -> Dict[str, bool]:
    """Per method of `cls`: can the returned value be the receiver itself (directly, through a local alias, or through a call
    on the receiver of a method that can)?  Least fixpoint over the class."""
    facts: Dict[str, bool] = {m: False for m in cls.methods}
    calls: Dict[str, List[str]] = {m: [] for m in cls.methods}
    for m, f in cls.methods.items():
        if not f.node.args.args or any(norm(d) in ("staticmethod", "classmethod") for d in f.node.decorator_list):
            continue
        me = f.node.args.args[0].arg
        res = analyse(f.node, roots_params=True, skip_params=tuple(a.arg for a in f.node.args.args[1:] + f.node.args.kwonlyargs) + ("cls",))
        if any(lab == me for _, lab, _ in res.returns):
            facts[m] = True
        # return <alias of self>.<method>(...)
        alias_names = {me}
        for st in own_nodes(f.node):
            if isinstance(st, ast.Assign) and isinstance(st.value, ast.Name) and st.value.id in alias_names:
                alias_names |= {t.id for t in st.targets if isinstance(t, ast.Name)}
        for r in own_nodes(f.node):
            if isinstance(r, ast.Return) and isinstance(r.value, ast.Call) and isinstance(r.value.func, ast.Attribute) \
                    and isinstance(r.value.func.value, ast.Name) and r.value.func.value.id in alias_names:
                calls[m].append(r.value.func.attr)
    changed = True
    while changed:
        changed = False
        for m in facts:
            if not facts[m] and any(facts.get(c, False) for c in calls[m]):
                facts[m] = True
                changed = True
    return facts


def fresh_results(ctx, rule: str, table, consequence: str):
    """table: [(module, class, [methods])] - operations documented to return a new object never return the receiver."""
    repo = ctx.repo
    for mod, cname, methods in table:
        cls = repo.cls(mod, cname)
        facts = may_return_self(cls)
        for m in methods:
            if m not in cls.methods:
                raise AnalysisError(f"{cname}.{m} no longer exists")
            f = cls.methods[m]
            ctx.ob(rule, f"{cname}.{m} never returns the receiver itself", not facts[m], where=f.fq,
                   construct=f"{cname}.{m} may return self", loc=loc(f, f.node),
                   message=f"{cname}.{m} can return the object it was called on (directly, through a local alias of self, or through a helper "
                           f"that can): the 'new' object shares identity with the original",
                   consequence=consequence)


CONTAINER_MUTATORS = ("append", "extend", "insert", "pop", "remove", "clear", "update", "setdefault", "popitem", "add", "discard", "sort", "reverse")


def mutable_defaults(ctx, rule: str, consequence: str):
    """A mutable default argument (list / dict / set literal or constructor call) is one object shared by all calls: it must
    never be modified (store, augmented assignment, or a mutating container method), or a call's result depends on earlier calls."""
    repo = ctx.repo
    n = sites = 0
    for f in repo.all_functions():
        if f.module.name.startswith("tdgl.test"):
            continue
        n += 1
        a = f.node.args
        pos = a.posonlyargs + a.args
        pairs = list(zip(pos[len(pos) - len(a.defaults):], a.defaults)) + [(k, d) for k, d in zip(a.kwonlyargs, a.kw_defaults) if d is not None]
        for p_, d in pairs:
            mutable = isinstance(d, (ast.List, ast.Dict, ast.Set, ast.ListComp, ast.DictComp, ast.SetComp)) or (
                isinstance(d, ast.Call) and norm(d.func).split(".")[-1] in ("dict", "list", "set", "array", "zeros", "ones", "empty", "defaultdict", "OrderedDict"))
            if not mutable:
                continue
            sites += 1
            res = analyse(f.node, skip_params=tuple(x.arg for x in pos + a.kwonlyargs if x.arg != p_.arg))
            bad = [(node, what) for node, lab, what in res.writes if lab == p_.arg]
            # aliases of the parameter: names bound to it by plain assignment
            names = {p_.arg}
            for st in own_nodes(f.node):
                if isinstance(st, ast.Assign) and isinstance(st.value, ast.Name) and st.value.id in names:
                    names |= {t.id for t in st.targets if isinstance(t, ast.Name)}
            rebound = any(isinstance(st, ast.Assign) and any(isinstance(t, ast.Name) and t.id == p_.arg for t in st.targets) for st in own_nodes(f.node))
            for c in own_nodes(f.node):
                if isinstance(c, ast.Call) and isinstance(c.func, ast.Attribute) and c.func.attr in CONTAINER_MUTATORS \
                        and isinstance(c.func.value, ast.Name) and c.func.value.id in names and not rebound:
                    bad.append((c, f".{c.func.attr}()"))
            ctx.ob(rule, f"{f.qual}: mutable default `{p_.arg}={norm(d)[:40]}` is never modified", not bad,
                   detail=[f"L{b.lineno}: {w}" for b, w in bad], where=f.fq, construct=f"mutable default `{p_.arg}` of {f.qual} is modified",
                   loc=loc(f, bad[0][0] if bad else f.node),
                   message=f"{f.qual} modifies its mutable default argument `{p_.arg}` ({'; '.join(w for _, w in bad[:2])}): the default object is shared by all calls",
                   consequence=consequence)
    ctx.ob(rule, f"{n} functions scanned, {sites} mutable default(s): none is modified", True, detail={"functions": n, "mutable_defaults": sites},
           where="package", construct="mutable defaults (package)")


def no_global_state(ctx, rule: str, consequence: str):
    """No function writes module-level or class-level state (global statement; store / mutating call on a module-level name;
    store to `ClassName.attr`, `cls.attr`, `type(self).attr`): such state survives from one run to the next in a process."""
    repo = ctx.repo
    n = 0
    bad_all = []
    class_names = {c.name for m in repo.modules.values() for c in m.classes.values()}
    for m in repo.modules.values():
        if m.name.startswith("tdgl.test"):
            continue
        tree = ast.parse(m.source)
        glob = set()
        for st in tree.body:
            if isinstance(st, (ast.Assign, ast.AnnAssign)):
                for t in (st.targets if isinstance(st, ast.Assign) else [st.target]):
                    if isinstance(t, ast.Name):
                        glob.add(t.id)
        for f in m.functions.values():
            n += 1
            locs = {a.arg for a in f.node.args.args + f.node.args.kwonlyargs + f.node.args.posonlyargs}
            declared_global = set()
            for x in own_nodes(f.node):
                if isinstance(x, ast.Global):
                    declared_global |= set(x.names)
            for x in own_nodes(f.node):
                if isinstance(x, ast.Name) and isinstance(x.ctx, ast.Store) and x.id not in declared_global:
                    locs.add(x.id)
            bad = []
            for x in own_nodes(f.node):
                if isinstance(x, ast.Name) and isinstance(x.ctx, ast.Store) and x.id in declared_global:
                    bad.append((x, f"global {x.id} rebound"))
                if isinstance(x, (ast.Subscript, ast.Attribute)) and isinstance(x.ctx, (ast.Store, ast.Del)) and isinstance(x.value, ast.Name):
                    b = x.value.id
                    if (b in glob and b not in locs) or (b in class_names and b not in locs) or (b == "cls" and isinstance(x, ast.Attribute)):
                        bad.append((x, f"{norm(x)} = ..."))
                if isinstance(x, ast.Attribute) and isinstance(x.ctx, (ast.Store, ast.Del)) and norm(x.value) in ("type(self)", "self.__class__"):
                    bad.append((x, f"{norm(x)} = ..."))
                if isinstance(x, ast.Call) and isinstance(x.func, ast.Attribute) and x.func.attr in CONTAINER_MUTATORS:
                    v = x.func.value
                    if isinstance(v, ast.Name) and v.id in glob and v.id not in locs:
                        bad.append((x, f"{norm(x)[:50]}"))
                    if isinstance(v, ast.Attribute) and isinstance(v.value, ast.Name) and (v.value.id in class_names or v.value.id == "cls") \
                            and v.value.id not in locs:
                        bad.append((x, f"{norm(x)[:50]}"))
            for node, what in bad:
                bad_all.append(what)
                ctx.ob(rule, f"{f.qual} writes process-wide state", False, where=f.fq, construct=f"process-wide state written in {f.qual}: {what}",
                       loc=loc(f, node), message=f"{f.qual} modifies module- or class-level state: L{node.lineno} {what}", consequence=consequence)
    # mutable objects created in a class body and never replaced per instance are shared by all instances: a store or a
    # mutating call through `self.X` (or through a local bound to `self.X`) writes state that outlives the object
    shared_sites = 0
    for m in repo.modules.values():
        if m.name.startswith("tdgl.test"):
            continue
        for c in m.classes.values():
            mutable = {}
            for st in c.node.body:
                tgt = val = None
                if isinstance(st, ast.Assign) and len(st.targets) == 1 and isinstance(st.targets[0], ast.Name):
                    tgt, val = st.targets[0].id, st.value
                elif isinstance(st, ast.AnnAssign) and isinstance(st.target, ast.Name) and st.value is not None:
                    tgt, val = st.target.id, st.value
                if tgt is None or tgt.startswith("__"):
                    continue
                is_mut = isinstance(val, (ast.Dict, ast.List, ast.Set, ast.ListComp, ast.DictComp, ast.SetComp)) or (
                    isinstance(val, ast.Call) and norm(val.func).split(".")[-1] in ("dict", "list", "set", "defaultdict", "OrderedDict", "deque", "Counter", "WeakKeyDictionary", "WeakValueDictionary"))
                if is_mut:
                    mutable[tgt] = st
            if not mutable:
                continue
            methods = [f for f in m.functions.values() if f.qual.startswith(c.name + ".") and f.qual.count(".") == 1]
            # an attribute every instance replaces in __init__ (unconditionally, at top level) is per-instance state
            for f in methods:
                if f.qual == c.name + ".__init__":
                    for st in f.node.body:
                        for t in (st.targets if isinstance(st, ast.Assign) else [st.target] if isinstance(st, ast.AnnAssign) and st.value is not None else []):
                            if isinstance(t, ast.Attribute) and isinstance(t.value, ast.Name) and t.value.id == "self":
                                mutable.pop(t.attr, None)
            for f in methods:
                aliases = {}
                for x in own_nodes(f.node):
                    if isinstance(x, ast.Assign) and len(x.targets) == 1 and isinstance(x.targets[0], ast.Name) and isinstance(x.value, ast.Attribute) \
                            and isinstance(x.value.value, ast.Name) and x.value.value.id == "self" and x.value.attr in mutable:
                        aliases[x.targets[0].id] = x.value.attr

                def shared_of(e):
                    if isinstance(e, ast.Attribute) and isinstance(e.value, ast.Name) and e.value.id == "self" and e.attr in mutable:
                        return e.attr
                    if isinstance(e, ast.Name) and e.id in aliases:
                        return aliases[e.id]
                    return None
                for x in own_nodes(f.node):
                    hit = None
                    if isinstance(x, ast.Subscript) and isinstance(x.ctx, (ast.Store, ast.Del)):
                        hit = shared_of(x.value)
                    elif isinstance(x, ast.Call) and isinstance(x.func, ast.Attribute) and x.func.attr in CONTAINER_MUTATORS:
                        hit = shared_of(x.func.value)
                    elif isinstance(x, ast.AugAssign):
                        hit = shared_of(x.target)
                    if hit:
                        shared_sites += 1
                        what = f"{norm(x)[:60]} (the object `{hit}` is created once in the body of class {c.name} and shared by every instance)"
                        bad_all.append(what)
                        ctx.ob(rule, f"{f.qual} writes process-wide state", False, where=f.fq, construct=f"class-level mutable `{c.name}.{hit}` modified through an instance in {f.qual}",
                               loc=loc(f, x), message=f"{f.qual} modifies module- or class-level state: L{x.lineno} {what}", consequence=consequence)
    ctx.ob(rule, f"{n} functions scanned: none writes module- or class-level state", True, detail={"functions": n}, where="package",
           construct="process-wide state (package)")
    if n < 150:
        raise AnalysisError(f"global-state scan saw only {n} functions")


def _memoised_members(cls):
    """[(name, kind, cache_attr, [computing FuncInfos])] for cached_property-style decorators and the lazy-attribute idiom
    `if self._x is None: <fill self._x>; return self._x`."""
    out = []
    for name, f in cls.methods.items():
        decos = [norm(d) for d in f.node.decorator_list]
        if any(d.split("(")[0].split(".")[-1] in ("cached_property", "lru_cache", "cache") for d in decos):
            out.append((name, "decorator", name, [f]))
            continue
        if "property" not in decos:
            # a plain method that keeps its result: `if self._x is not None: return self._x` ... `self._x = <result>; return self._x`
            # (or the `is None: fill` form), for a method that takes no argument besides self
            if len(f.node.args.args) == 1 and not f.node.args.kwonlyargs and not f.node.args.vararg and not name.startswith("__"):
                tests = [t for t in own_nodes(f.node) if isinstance(t, ast.Compare) and isinstance(t.left, ast.Attribute) and _self_root(t.left)
                         and len(t.ops) == 1 and isinstance(t.ops[0], (ast.Is, ast.IsNot)) and isinstance(t.comparators[0], ast.Constant)
                         and t.comparators[0].value is None]
                for t in tests:
                    cache = t.left.attr
                    stores = [x for x in own_nodes(f.node) if isinstance(x, ast.Attribute) and isinstance(x.ctx, ast.Store) and _self_root(x) and x.attr == cache]
                    rets = [r for r in own_nodes(f.node) if isinstance(r, ast.Return) and r.value is not None and norm(r.value) == f"self.{cache}"]
                    if stores and rets:
                        out.append((name, "lazy attribute", cache, [f]))
                        break
            continue
        for st in f.node.body:
            if isinstance(st, ast.If) and isinstance(st.test, ast.Compare) and isinstance(st.test.left, ast.Attribute) \
                    and _self_root(st.test.left) and len(st.test.ops) == 1 and isinstance(st.test.ops[0], ast.Is) \
                    and isinstance(st.test.comparators[0], ast.Constant) and st.test.comparators[0].value is None:
                cache = st.test.left.attr
                rets = [r for r in own_nodes(f.node) if isinstance(r, ast.Return) and r.value is not None]
                if any(norm(r.value) == f"self.{cache}" for r in rets) and all(
                        norm(r.value) == f"self.{cache}" or isinstance(r.value, ast.Constant) for r in rets):
                    comp = [f]
                    for c in ast.walk(st):
                        if isinstance(c, ast.Call) and isinstance(c.func, ast.Attribute) and _self_root(c.func) and c.func.attr in cls.methods:
                            comp.append(cls.methods[c.func.attr])
                    out.append((name, "lazy attribute", cache, comp))
    return out


def memo_discipline(ctx, rule: str, consequence: str, floor: int = 2, classes: tuple = ()):
    """Every memoised value (cached_property / lru_cache on a method / lazy `_x is None` attribute) is invalidated by every
    method that rebinds one of the attributes it was computed from (property setters included)."""
    repo = ctx.repo
    n = 0
    for m in repo.modules.values():
        if m.name.startswith("tdgl.test"):
            continue
        for cls in m.classes.values():
            if classes and cls.name not in classes:
                continue
            members = _memoised_members(cls)
            if not members:
                continue
            # all function definitions of the class body, getters and setters of one property both kept
            defs = [d for d in cls.node.body if isinstance(d, ast.FunctionDef)]
            getters = {}
            for d in defs:
                if not any(norm(x).endswith((".setter", ".deleter")) for x in d.decorator_list):
                    getters.setdefault(d.name, d)
            for name, kind, cache, comp in members:
                n += 1
                comp_nodes = [c.node for c in comp]
                deps, todo, seen = set(), list(comp_nodes), set()
                while todo:
                    g = todo.pop()
                    if id(g) in seen:
                        continue
                    seen.add(id(g))
                    for x in own_nodes(g):
                        if isinstance(x, ast.Attribute) and isinstance(x.ctx, ast.Load) and _self_root(x) and x.attr != cache:
                            deps.add(x.attr)
                            if x.attr in getters:
                                todo.append(getters[x.attr])
                by_name = {}
                for d in defs:
                    by_name.setdefault(d.name, []).append(d)

                def invalidates(h, depth=0):
                    for x in own_nodes(h):
                        if isinstance(x, ast.Attribute) and isinstance(x.ctx, (ast.Store, ast.Del)) and _self_root(x) and x.attr == cache:
                            return True
                        if isinstance(x, ast.Call) and isinstance(x.func, ast.Attribute) and x.func.attr in ("pop", "__delitem__", "clear") \
                                and norm(x.func.value) in ("self.__dict__", "vars(self)"):
                            return True
                        if isinstance(x, ast.Subscript) and isinstance(x.ctx, ast.Del) and norm(x.value) == "self.__dict__":
                            return True
                        if depth < 2 and isinstance(x, ast.Call) and isinstance(x.func, ast.Attribute) and _self_root(x.func) \
                                and x.func.attr in by_name and any(k is not h and invalidates(k, depth + 1) for k in by_name[x.func.attr]):
                            return True
                    return False
                bad = []
                for d in defs:
                    if d.name in ("__init__", "__setstate__", "__new__") or d in comp_nodes:
                        continue
                    stores = {x.attr for x in own_nodes(d) if isinstance(x, ast.Attribute) and isinstance(x.ctx, (ast.Store, ast.Del))
                              and _self_root(x) and x.attr in deps}
                    # the setter of a property the value depends on rebinds that property
                    for dec in d.decorator_list:
                        t = norm(dec)
                        if t.endswith(".setter") and t[:-7] in deps:
                            stores.add(t[:-7])
                    if stores and not invalidates(d):
                        bad.append(f"{cls.name}.{d.name} (L{d.lineno}) rebinds {sorted(stores)}")
                f0 = comp[0]
                ctx.ob(rule, f"{cls.name}.{name} ({kind}): every method that rebinds {sorted(deps)[:6]} invalidates the memo", not bad,
                       detail={"computed_from": sorted(deps), "writers_without_invalidation": bad}, where=f0.fq,
                       construct=f"memoised {cls.name}.{name} not invalidated", loc=loc(f0, f0.node),
                       message=f"{cls.name}.{name} is memoised ({kind}) but {bad[:2]} without invalidating it: the memo goes stale",
                       consequence=consequence, witness={"stale_after": bad[:3]} if bad else None)
    if n < floor:
        raise AnalysisError(f"memoisation discipline: only {n} memoised members found (expected >= {floor})")
    if n == 0:
        ctx.ob(rule, f"no memoised member in {classes or 'the package'} (nothing can go stale)", True, where="package", construct="memoised members")


# writes to fields of a SolverOptions object inside the library (confirmed by reading)
OPTION_WRITES_OK = {
    ("tdgl.solver.options:SolverOptions.validate", "sparse_solver"): "a solver given by name is replaced by the enum member of the same name",
}


def options_readonly(ctx, rule: str, consequence: str):
    """The library never changes the user's SolverOptions: stores to a field of an options object (`self` inside SolverOptions,
    or a value typed / named as options) are confined to the confirmed table."""
    from .dataflow import expanded_text
    repo = ctx.repo
    opt = repo.cls("tdgl.solver.options", "SolverOptions")
    fields = {s_.target.id for s_ in opt.node.body if isinstance(s_, ast.AnnAssign)}
    if len(fields) < 15:
        raise AnalysisError("SolverOptions has fewer fields than expected")
    n = 0
    for f in repo.all_functions():
        if f.module.name.startswith("tdgl.test"):
            continue
        env = None
        for x in own_nodes(f.node):
            targets = []
            if isinstance(x, ast.Attribute) and isinstance(x.ctx, (ast.Store, ast.Del)) and x.attr in fields:
                targets.append((x.value, x.attr, x))
            if isinstance(x, ast.Call) and getattr(x.func, "id", "") == "setattr" and len(x.args) >= 2:
                nm = x.args[1].value if isinstance(x.args[1], ast.Constant) else "<dynamic>"
                targets.append((x.args[0], nm, x))
            for base, attr, node in targets:
                if env is None:
                    env = repo.local_types(f)
                t = repo.expr_type(f, base, env) or ""
                is_opt = t.endswith(":SolverOptions") or (f.cls is not None and f.cls.name == "SolverOptions" and norm(base) == "self") \
                    or "option" in expanded_text(f.node, base).split(".")[-1].lower()
                if not is_opt:
                    continue
                n += 1
                key = (f.fq, attr)
                ok = key in OPTION_WRITES_OK
                if not ok and attr == "sparse_solver" and f.cls is not None and f.cls.name == "SolverOptions" and norm(base) == "self" \
                        and f.node.name.startswith("_") and not f.node.name.startswith("__"):
                    # the confirmed write (name -> enum member of that name), moved into a private helper of SolverOptions
                    ok = True
                    key = ("tdgl.solver.options:SolverOptions.validate", "sparse_solver")
                ctx.ob(rule, f"{f.qual}: `{norm(base)}.{attr} = ...` ({OPTION_WRITES_OK.get(key, 'NOT in the confirmed table')[:70]})", ok,
                       where=f.fq, construct=f"options.{attr} rewritten in {f.qual}", loc=loc(f, node),
                       message=f"{f.qual} overwrites the option `{attr}` of the user's SolverOptions (L{node.lineno}: {norm(node)[:70]})",
                       consequence=consequence)
    if n < 1:
        raise AnalysisError("no write to an options field found: the confirmed instance (validate / sparse_solver) has vanished")


LIKE_CTORS = ("full_like", "empty_like", "zeros_like", "ones_like")


def no_inherited_dtype_casts(ctx, rule: str, consequence: str, modules: tuple = ()):
    """A value must never be *cast into* the dtype of an array the user supplied (integer positions are legal input):
    (a) `np.full_like(proto, value)` without an explicit dtype, proto derived from a parameter;
    (b) an elementwise store into an `empty_like / zeros_like / ones_like` array whose prototype derives from a parameter
        and that has no explicit dtype.
    `value * np.ones_like(x)` is fine: the product is promoted."""
    repo = ctx.repo
    through = storage_attrs(repo)
    n = sites = 0
    for f in repo.all_functions():
        if f.module.name.startswith(("tdgl.test", "tdgl.visualization")):
            continue
        if modules and not any(f.module.name.startswith(m) for m in modules):
            continue
        n += 1
        calls = [c for c in own_nodes(f.node) if isinstance(c, ast.Call) and norm(c.func).split(".")[-1] in LIKE_CTORS and c.args]
        if not calls:
            continue
        # which names may alias a parameter (user data)?  re-use the alias analysis: a `_like` call is made a root when its
        # prototype aliases a parameter, so that later elementwise stores into it are reported as writes
        marks = {}

        def root(e):
            if isinstance(e, ast.Call) and norm(e.func).split(".")[-1] in LIKE_CTORS and e.args and id(e) in marks:
                return marks[id(e)]
            return None
        pre = analyse(f.node, through_attrs=through)
        # prototype aliases a parameter?  evaluate with a second pass: collect names aliasing parameters at any point (may-alias)
        alias_names = set()
        params = {a.arg for a in f.node.args.args + f.node.args.kwonlyargs + f.node.args.posonlyargs} - {"self", "cls"}
        alias_names |= params
        changed = True
        while changed:
            changed = False
            for st in own_nodes(f.node):
                if isinstance(st, ast.Assign):
                    v = st.value
                    base = v
                    while isinstance(base, (ast.Subscript, ast.Attribute)) or (isinstance(base, ast.Call) and norm(base.func).split(".")[-1] in
                                                                                ("asarray", "atleast_1d", "atleast_2d", "squeeze", "ravel", "reshape", "copy", "array")):
                        if isinstance(base, ast.Call):
                            base = base.args[0] if base.args else (base.func.value if isinstance(base.func, ast.Attribute) else None)
                            if base is None:
                                break
                        else:
                            base = base.value
                    if isinstance(base, ast.Name) and base.id in alias_names:
                        for t in st.targets:
                            for x in ([t] if isinstance(t, ast.Name) else getattr(t, "elts", [])):
                                if isinstance(x, ast.Name) and x.id not in alias_names:
                                    alias_names.add(x.id)
                                    changed = True
        for c in calls:
            kind = norm(c.func).split(".")[-1]
            proto = c.args[0]
            pnames = {x.id for x in ast.walk(proto) if isinstance(x, ast.Name)}
            from_user = bool(pnames & alias_names)
            has_dtype = any(k.arg == "dtype" for k in c.keywords)
            if not from_user or has_dtype:
                continue
            sites += 1
            if kind == "full_like":
                ctx.ob(rule, f"{f.qual}: `{norm(c)[:60]}` casts the fill value into the dtype of user input", False, where=f.fq,
                       construct=f"full_like on user input in {f.qual}", loc=loc(f, c),
                       message=f"`{norm(c)[:80]}` creates an array with the dtype of `{norm(proto)}` (user input, possibly integer) and casts "
                               f"the fill value into it",
                       consequence=consequence)
            else:
                marks[id(c)] = f"{kind}({norm(proto)})"
        if marks:
            res = analyse(f.node, roots_params=False, root_expr=root)
            for node, lab, what in res.writes:
                ctx.ob(rule, f"{f.qual}: elementwise store into {lab}", False, where=f.fq, construct=f"store into {lab} in {f.qual}",
                       loc=loc(f, node), message=f"`{norm(node)[:70]}` stores into an array created as {lab}: the value is cast to the dtype of the user's input",
                       consequence=consequence)
    ctx.ob(rule, f"{n} functions scanned: no value is cast into a dtype inherited from user input", True, detail={"functions": n, "like_sites_on_user_input": sites},
           where="package", construct="inherited dtype (package)")


COORD_ATTRS = ("probe_points", "points", "_points")


def coords_rebound_only(ctx, rule: str, consequence: str):
    """Coordinate arrays stored on devices / polygons (probe_points, points) keep the dtype the user supplied: they are only ever
    rebound to freshly computed arrays, never written element by element."""
    repo = ctx.repo

    # which classes hand out their *stored* array through the attribute (plain attribute, or a property returning self._x)?
    stored = {}
    for m in repo.modules.values():
        for c in m.classes.values():
            for a in COORD_ATTRS:
                g = c.methods.get(a)
                if g is None:
                    continue
                # ClassInfo.methods keeps the last definition of a name (the setter): look the getter up in the class body
                getters = [d for d in c.node.body if isinstance(d, ast.FunctionDef) and d.name == a and any(norm(x) == "property" for x in d.decorator_list)]
                if getters:
                    r = analyse(getters[0], roots_params=False, root_expr=_self_root)
                    stored[(c.name, a)] = bool(r.returns)
    n = 0
    for f in repo.all_functions():
        if not f.module.name.startswith("tdgl.device") and f.module.name not in ("tdgl.geometry",):
            continue
        n += 1
        env = repo.local_types(f)

        def root(e, f=f, env=env):
            if isinstance(e, ast.Attribute) and e.attr in COORD_ATTRS:
                t = (repo.expr_type(f, e.value, env) or "").split(":")[-1]
                if t and stored.get((t, e.attr)) is False:
                    return None            # a property of that class that computes a fresh array (Device.points)
                return f"<object>.{e.attr}"
            return None
        res = analyse(f.node, roots_params=False, root_expr=root)
        for node, lab, what in res.writes:
            ctx.ob(rule, f"{f.qual} writes into {lab}", False, where=f.fq, construct=f"elementwise write into {lab} in {f.qual}", loc=loc(f, node),
                   message=f"{f.qual} stores into the existing array `{lab}` ({what}) instead of rebinding it to a new array",
                   consequence=consequence)
    ctx.ob(rule, f"{n} geometry functions scanned: coordinate attributes are rebound, never written in place", True, where="tdgl.device",
           construct="coordinate arrays (tdgl.device)")
    if n < 60:
        raise AnalysisError(f"only {n} geometry functions scanned")


def no_stateful_closures(ctx, rule: str, consequence: str):
    """No nested function or lambda (outside the plotting modules) modifies a variable it captures from the enclosing function:
    a callable stored on an object (`self.current_func = ...`) that mutates captured storage carries hidden state from one
    call to the next."""
    repo = ctx.repo
    n = 0
    for f in repo.all_functions():
        if f.module.name.startswith(("tdgl.test", "tdgl.visualization")) or f.module.name == "tdgl.visualize":
            continue
        nested = []
        if f.parent is not None:
            nested.append(f.node)
        for x in own_nodes(f.node):
            if isinstance(x, ast.Lambda):
                nested.append(x)
        for fn in nested:
            n += 1
            a = fn.args
            locs = {p_.arg for p_ in a.args + a.kwonlyargs + a.posonlyargs}
            if a.vararg:
                locs.add(a.vararg.arg)
            if a.kwarg:
                locs.add(a.kwarg.arg)
            body_nodes = list(own_nodes(fn)) if isinstance(fn, ast.FunctionDef) else list(ast.walk(fn.body))
            nonloc = set()
            for x in body_nodes:
                if isinstance(x, (ast.Nonlocal, ast.Global)):
                    nonloc |= set(x.names)
            for x in body_nodes:
                if isinstance(x, ast.Name) and isinstance(x.ctx, ast.Store) and x.id not in nonloc:
                    locs.add(x.id)
                if isinstance(x, (ast.ListComp, ast.SetComp, ast.DictComp, ast.GeneratorExp)):
                    for g in x.generators:
                        for y in ast.walk(g.target):
                            if isinstance(y, ast.Name):
                                locs.add(y.id)
            bad = []
            for x in body_nodes:
                if isinstance(x, (ast.Subscript, ast.Attribute)) and isinstance(x.ctx, (ast.Store, ast.Del)) and isinstance(x.value, ast.Name) \
                        and x.value.id not in locs and x.value.id not in ("self", "cls"):
                    if any(w in x.value.id.lower() for w in ("h5", "group", "file")):
                        continue        # writing a dataset through a captured HDF5 handle is output, not state (serialisers: C14)
                    bad.append((x, f"{norm(x)} = ..."))
                if isinstance(x, ast.Call) and isinstance(x.func, ast.Attribute) and x.func.attr in CONTAINER_MUTATORS \
                        and isinstance(x.func.value, ast.Name) and x.func.value.id not in locs and x.func.value.id not in ("self", "cls"):
                    # a module-level logger / registry is not a captured local: only names bound in an enclosing function count
                    enc = f.parent if f.parent is not None and isinstance(fn, ast.FunctionDef) else f
                    bound = {y.id for y in ast.walk(enc.node) if isinstance(y, ast.Name) and isinstance(y.ctx, ast.Store)} | \
                            {p_.arg for p_ in enc.node.args.args + enc.node.args.kwonlyargs}
                    if x.func.value.id in bound:
                        bad.append((x, norm(x)[:60]))
                if isinstance(x, ast.Name) and isinstance(x.ctx, ast.Store) and x.id in nonloc:
                    # a helper that is only *called* inside the function that defines it lives and dies with that call: its nonlocal
                    # is a local of the enclosing call.  State is kept between calls only by a closure that escapes (stored, returned,
                    # handed to someone else).
                    enc_ = f.parent if f.parent is not None and isinstance(fn, ast.FunctionDef) else None
                    if enc_ is not None and isinstance(fn, ast.FunctionDef):
                        refs = [y for y in ast.walk(enc_.node) if isinstance(y, ast.Name) and y.id == fn.name and isinstance(y.ctx, ast.Load)]
                        pm_ = {id(c_): p_ for p_ in ast.walk(enc_.node) for c_ in ast.iter_child_nodes(p_)}
                        if refs and all(isinstance(pm_.get(id(y)), ast.Call) and pm_[id(y)].func is y for y in refs):
                            continue
                    bad.append((x, f"nonlocal {x.id} rebound"))
            for node, what in bad:
                nm = getattr(fn, "name", "<lambda>")
                ctx.ob(rule, f"{f.qual}: nested `{nm}` modifies captured `{what}`", False, where=f.fq,
                       construct=f"stateful closure `{nm}` in {f.qual}: {what}", loc=loc(f, node),
                       message=f"the nested callable `{nm}` in {f.qual} modifies a variable of the enclosing function (L{node.lineno}: {what}): "
                               f"it keeps state from one call to the next",
                       consequence=consequence)
    ctx.ob(rule, f"{n} nested functions / lambdas scanned: none modifies a captured variable", True, detail={"closures": n}, where="package",
           construct="stateful closures (package)")
    if n < 10:
        raise AnalysisError(f"only {n} nested callables found")


# ---------------------------------------------------------------------------
# batched fills: a result buffer written slice by slice in `for i in range(M)` is covered only if M is a ceiling division
# ---------------------------------------------------------------------------

_BATCH_POS = '''
def f(positions, points):
    out = np.zeros((len(positions), 2))
    batch_size = max(1, LIMIT // len(points))
    num_batches = max(1, len(positions) // batch_size)
    for i in range(num_batches):
        batch = slice(i * batch_size, (i + 1) * batch_size)
        out[batch] = g(positions[batch])
    return out
'''
_BATCH_NEG = _BATCH_POS.replace("max(1, len(positions) // batch_size)", "-(-len(positions) // batch_size)")


def _strip_max1(e):
    while isinstance(e, ast.Call) and norm(e.func) in ("max", "int", "np.maximum") and len(e.args) in (1, 2):
        if len(e.args) == 1:
            e = e.args[0]
        else:
            a, b = e.args
            e = b if isinstance(a, ast.Constant) else a if isinstance(b, ast.Constant) else None
            if e is None:
                return None
    return e


def _batched_fill_sites(fn_node):
    """[(loop, store, extent expr M (expanded), stride text, verdict)] for loops `for i in range(M)` that store into
    `X[i*b:(i+1)*b]` (directly or through a local slice object).  verdict: 'floor' | 'ceil' | 'unknown'."""
    from .dataflow import expand
    out = []
    for loop in ast.walk(fn_node):
        if not (isinstance(loop, ast.For) and isinstance(loop.target, ast.Name) and isinstance(loop.iter, ast.Call)
                and norm(loop.iter.func) == "range" and len(loop.iter.args) == 1):
            continue
        i = loop.target.id
        slices = {}
        for st in ast.walk(loop):
            if isinstance(st, ast.Assign) and len(st.targets) == 1 and isinstance(st.targets[0], ast.Name) and isinstance(st.value, ast.Call) \
                    and norm(st.value.func) == "slice" and len(st.value.args) == 2:
                slices[st.targets[0].id] = (st.value.args[0], st.value.args[1])

        def bounds(sl):
            if isinstance(sl, ast.Slice) and sl.lower is not None and sl.upper is not None and sl.step is None:
                return sl.lower, sl.upper
            if isinstance(sl, ast.Name) and sl.id in slices:
                return slices[sl.id]
            if isinstance(sl, ast.Tuple) and sl.elts:
                return bounds(sl.elts[0])
            return None

        def stride_of(lo, hi):
            # lo == i * b (or b * i), hi == (i + 1) * b or lo + b
            if isinstance(lo, ast.BinOp) and isinstance(lo.op, ast.Mult):
                a, b = lo.left, lo.right
                b_ = b if (isinstance(a, ast.Name) and a.id == i) else a if (isinstance(b, ast.Name) and b.id == i) else None
                if b_ is None:
                    return None
                bt = norm(b_)
                ht = norm(hi)
                if ht in (f"({i} + 1) * {bt}", f"{bt} * ({i} + 1)", f"(1 + {i}) * {bt}", f"{norm(lo)} + {bt}", f"{bt} + {norm(lo)}"):
                    return bt
            return None
        for st in ast.walk(loop):
            if isinstance(st, ast.Subscript) and isinstance(st.ctx, ast.Store):
                bd = bounds(st.slice)
                if not bd:
                    continue
                b = stride_of(*bd)
                if b is None:
                    continue
                try:
                    M = expand(fn_node, loop.iter.args[0])
                except Exception:
                    M = loop.iter.args[0]
                M0 = _strip_max1(M)
                verdict = "unknown"
                if M0 is not None:
                    t = norm(M0)
                    # the stride may itself be a local: compare after expanding it too
                    try:
                        bexp = norm(expand(fn_node, ast.parse(b, mode="eval").body))
                    except Exception:
                        bexp = b
                    for bb in {b, bexp}:
                        if isinstance(M0, ast.BinOp) and isinstance(M0.op, ast.FloorDiv) and norm(M0.right) == bb:
                            num = norm(M0.left)
                            if num.endswith(f"+ {bb} - 1") or num.endswith(f"+ ({bb} - 1)") or num.endswith(f"- 1 + {bb}"):
                                verdict = "ceil"
                            elif not num.startswith("-"):
                                verdict = "floor"
                        if isinstance(M0, ast.UnaryOp) and isinstance(M0.op, ast.USub) and isinstance(M0.operand, ast.BinOp) \
                                and isinstance(M0.operand.op, ast.FloorDiv) and norm(M0.operand.right) == bb and norm(M0.operand.left).startswith("-"):
                            verdict = "ceil"
                        if "ceil(" in t and bb in t:
                            verdict = "ceil"
                out.append((loop, st, norm(M)[:80], b, verdict))
    return out


def batched_fill_covers(ctx, rule: str, modules, consequence: str):
    """A result buffer that is filled batch by batch - `for i in range(M): out[i*b:(i+1)*b] = ...` - is completely written only if
    M = ceil(N / b).  With the floor quotient the last N mod b rows keep their initial zeros.  Loops of the form
    `for start in range(0, N, b)` need no batch count and are not instances.  The detector is run on an embedded floor / ceiling pair
    on every invocation (today's tree has no batched fill, so the rule would otherwise pass vacuously)."""
    pos = _batched_fill_sites(ast.parse(_BATCH_POS).body[0])
    neg = _batched_fill_sites(ast.parse(_BATCH_NEG).body[0])
    ok_self = len(pos) == 1 and pos[0][4] == "floor" and len(neg) == 1 and neg[0][4] == "ceil"
    if not ok_self:
        raise AnalysisError(f"batched-fill detector fails its embedded examples: {[p[4] for p in pos]} / {[p[4] for p in neg]}")
    ctx.ob(rule, "embedded examples: floor-quotient batch count flagged, ceiling quotient accepted", True, where="pvs.effects", construct="batched fill self-test")
    repo = ctx.repo
    n = 0
    for m in repo.modules.values():
        if not m.name.startswith(tuple(modules)):
            continue
        for f in m.functions.values():
            for loop, st, M, b, verdict in _batched_fill_sites(f.node):
                n += 1
                if verdict == "unknown":
                    raise AnalysisError(f"{f.fq} L{loop.lineno}: batch count `{M}` of a batched fill with stride `{b}` is in no recognised form")
                ctx.ob(rule, f"{f.qual}: batched fill of `{norm(st.value)}` covers the whole buffer", verdict == "ceil",
                       detail={"batch_count": M, "stride": b}, where=f.fq, loc=loc(f, loop), construct=f"batched fill of {norm(st.value)} in {f.qual}",
                       message=f"{f.qual} fills `{norm(st.value)}` in `range({M})` batches of `{b}` rows: the batch count is a floor quotient, so the last "
                               f"(rows mod {b}) rows are never written and keep their initial value",
                       consequence=consequence)
    ctx.note("batched_fills", n)
