"""CLI:  python -m pvs.check <ID> [--tier quick|thorough]  |  --replay <file>"""
from __future__ import annotations

import argparse
import importlib
import json
import os
import sys

from .report import run_check


def main(argv=None):
    ap = argparse.ArgumentParser()
    ap.add_argument("prop", nargs="?")
    ap.add_argument("--tier", default=os.environ.get("VERIF_TIER", "quick"))
    ap.add_argument("--replay")
    a = ap.parse_args(argv)
    replay_key = None
    prop = a.prop
    if a.replay:
        try:
            rj = json.load(open(a.replay))
            prop, replay_key = rj["property"], rj["key"]
        except Exception as e:
            print(f"ANALYSIS-ERROR cannot read replay file: {e}")
            return 2
    if not prop:
        ap.error("property id required")
    tier = "thorough" if a.tier == "thorough" else "quick"
    try:
        mod = importlib.import_module(f"pvs.props.{prop.lower()}")
    except ModuleNotFoundError:
        print(f"ANALYSIS-ERROR property={prop} no checker")
        return 2
    thorough = None
    if tier == "thorough":
        try:
            from .selftest import runner as st
            thorough = lambda ctx: st.run_for(ctx)
        except ModuleNotFoundError:
            thorough = None
    return run_check(prop, tier, mod.check, level=getattr(mod, "LEVEL", "other"),
                     technique=getattr(mod, "TECH", ""), explanation=getattr(mod, "EXPLAIN", ""),
                     trusted_base=getattr(mod, "TRUSTED", None), replay_key=replay_key,
                     thorough_fn=thorough)


if __name__ == "__main__":
    sys.exit(main())
