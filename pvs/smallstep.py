"""A small-step reader for control-flow rules: the statements of ONE function are followed over a finite abstract domain.

Some rules are about the *protocol* of a loop ("one solve per retry, the step multiplied exactly once between two solves, give up
after the bound"), and the same protocol can be written as `for n in itertools.count(): if ok: break ...`, as `while not ok:`,
with or without temporaries.  Matching statement shapes raises alarms on such rewrites; following the statements does not.  The
domain is finite and chosen by the rule: small integers, booleans, None, strings, tuples, dicts, monomials `base * m**k` and
opaque symbols for everything the rule does not care about.  A condition that depends on an opaque value is not decidable in the
model: that is an AnalysisError (exit 2), never a verdict.  Nothing of the analysed program is executed.
"""
from __future__ import annotations

import ast
from typing import Any, Callable, Dict, List, Optional

from .src import AnalysisError


class Opaque:
    """A value the rule does not interpret.  `parts` keeps how it was made: ("Sub", a, b) / ("call", name, args, kwargs)."""

    def __init__(self, text: str, parts: Optional[tuple] = None):
        self.text = text
        self.parts = parts

    def __repr__(self):
        return f"<{self.text}>"

    def __eq__(self, other):
        return isinstance(other, Opaque) and other.text == self.text

    def __hash__(self):
        return hash(("Opaque", self.text))


class Mono:
    """base * multiplier ** exp"""

    def __init__(self, base: str, exp: int = 0):
        self.base, self.exp = base, exp

    def __repr__(self):
        return f"{self.base}*m^{self.exp}"

    def __eq__(self, other):
        return isinstance(other, Mono) and (other.base, other.exp) == (self.base, self.exp)

    def __hash__(self):
        return hash(("Mono", self.base, self.exp))


class Mult:
    """the multiplier itself"""

    def __repr__(self):
        return "m"


MULT = Mult()


class Closure:
    """A nested function or lambda of the followed function, callable inside the model."""

    def __init__(self, node, machine):
        self.node, self.machine = node, machine

    def __repr__(self):
        return f"<closure {getattr(self.node, 'name', 'lambda')}>"


class RecordType:
    """A NamedTuple class of the followed module: calling it builds a Record."""

    def __init__(self, name, fields, defaults):
        self.name, self.fields, self.defaults = name, list(fields), dict(defaults)

    def __repr__(self):
        return f"<record type {self.name}>"


class Record:
    def __init__(self, rtype: RecordType, values: Dict[str, Any]):
        self.rtype, self.values = rtype, values

    def __repr__(self):
        return f"{self.rtype.name}({', '.join(f'{k}={render(v)}' for k, v in self.values.items())})"

    def __iter__(self):
        return iter(self.values.values())

    def __len__(self):
        return len(self.values)


class GenValue:
    """A generator of the followed program: its body runs in the model only as far as the consumer asks (lazily, like the real
    one), on a helper thread that is never running at the same time as the consumer."""

    def __init__(self, start):
        self._start = start            # callable(yield_fn) that runs the body

    def __iter__(self):
        import queue
        import threading
        to_gen, to_cons = queue.Queue(), queue.Queue()

        def yield_fn(v):
            to_cons.put(("item", v))
            to_gen.get()               # wait until the consumer asks for the next item

        def body():
            to_gen.get()
            try:
                self._start(yield_fn)
                to_cons.put(("done", None))
            except BaseException as e:      # Raised / Undecidable travel to the consumer
                to_cons.put(("error", e))
        th = threading.Thread(target=body, daemon=True)
        th.start()
        while True:
            to_gen.put(None)
            kind, v = to_cons.get()
            if kind == "item":
                yield v
            elif kind == "done":
                return
            else:
                raise v


    # -- the generator as the body of a @contextmanager: run to the yield, later resume (normally or with the exception of the block)
    def open(self):
        import queue
        import threading
        self._to_gen, self._to_cons = queue.Queue(), queue.Queue()

        def yield_fn(v):
            self._to_cons.put(("item", v))
            msg = self._to_gen.get()
            if isinstance(msg, BaseException):
                raise msg

        def body():
            self._to_gen.get()
            try:
                self._start(yield_fn)
                self._to_cons.put(("done", None))
            except BaseException as e:
                self._to_cons.put(("error", e))
        threading.Thread(target=body, daemon=True).start()
        self._to_gen.put(None)
        kind, v = self._to_cons.get()
        if kind == "item":
            return v
        if kind == "done":
            raise Raised("RuntimeError: generator didn't yield")
        raise v

    def close(self, exc=None) -> bool:
        """resume after the yield; True when an exception thrown in was swallowed by the generator"""
        self._to_gen.put(exc)
        kind, v = self._to_cons.get()
        if kind == "done":
            return exc is not None
        if kind == "item":
            raise Raised("RuntimeError: generator didn't stop")
        raise v


class OpHelper:
    """operator.methodcaller / attrgetter / itemgetter objects of the analysed program"""

    def __init__(self, kind: str, names: tuple, args: tuple = (), kwargs: Optional[dict] = None):
        self.kind, self.names, self.args, self.kwargs = kind, names, args, kwargs or {}

    def __repr__(self):
        return f"<{self.kind}{self.names}>"


class Raised(Exception):
    def __init__(self, what: str):
        self.what = what


class _Return(Exception):
    def __init__(self, v):
        self.v = v


class _Break(Exception):
    pass


class _Continue(Exception):
    pass


class Undecidable(AnalysisError):
    pass


def render(v) -> str:
    if isinstance(v, Opaque):
        return v.text
    if isinstance(v, (Closure, Record, RecordType)):
        return repr(v)
    if isinstance(v, tuple):
        return "(" + ", ".join(render(x) for x in v) + ("," if len(v) == 1 else "") + ")"
    if isinstance(v, list):
        return "[" + ", ".join(render(x) for x in v) + "]"
    if isinstance(v, dict):
        return "{" + ", ".join(f"{render(k)}: {render(x)}" for k, x in v.items()) + "}"
    return repr(v)


class Machine:
    def __init__(self, env: Dict[str, Any], attrs: Callable[[str], Any], call: Callable[["Machine", ast.Call, str, list, dict], Any],
                 fuel: int = 64, undecided: Optional[Callable[[str], Optional[bool]]] = None):
        """attrs(dotted text) -> value | NotImplemented;  call(machine, node, name, args, kwargs) -> value | NotImplemented;
        undecided(test text) -> the branch to take for a test the model cannot decide, or None (-> Undecidable)."""
        self.env = dict(env)
        self.globals_ = {k: v for k, v in env.items() if isinstance(v, Closure) and v.machine is None or k.isupper() or k.startswith("_")
                         or isinstance(v, RecordType) or k == "<class constants>" or k in env.get("<class constants>", ())}
        self.attrs, self.call_hook, self.fuel, self.undecided = attrs, call, fuel, undecided
        self.stores: List[tuple] = []
        self.attr_stores: List[tuple] = []

    # -- expressions ------------------------------------------------------------------------------------------------------
    def ev(self, e) -> Any:
        if isinstance(e, ast.Constant):
            return e.value
        if isinstance(e, ast.Name):
            if e.id in self.env:
                return self.env[e.id]
            return Opaque(e.id)
        if isinstance(e, ast.Attribute):
            if not isinstance(e.value, ast.Name) or isinstance(self.env.get(e.value.id), Record):
                b0 = self.ev(e.value) if isinstance(e.value, ast.Name) else None
                if isinstance(b0, Record) and e.attr in b0.values:
                    return b0.values[e.attr]
            chain = e
            while isinstance(chain, ast.Attribute):
                chain = chain.value
            if isinstance(chain, ast.Name) and isinstance(self.env.get(chain.id), Opaque) and self.env[chain.id].text == chain.id:
                v = self.attrs(ast.unparse(e))
                if v is not NotImplemented:
                    return v
            # a NamedTuple class nested in a class, a constant of the class body: `self._Candidate`, `DataHandler._CLOCK_KEYS`
            if isinstance(e.value, ast.Name):
                nested = [v_ for k_, v_ in self.env.items() if isinstance(k_, str) and k_.endswith("." + e.attr) and k_.count(".") == 1
                          and (isinstance(v_, RecordType) or k_ in self.env.get("<class constants>", ()))]
                if len(nested) == 1 and (e.value.id in ("self", "cls") and self.env.get(e.value.id) in (Opaque("self"), Opaque("cls"))
                                         or f"{e.value.id}.{e.attr}" in self.env):
                    return nested[0]
            base = self.ev(e.value)
            if isinstance(base, Record) and e.attr in base.values:
                return base.values[e.attr]
            if isinstance(base, (Record, RecordType)) and e.attr == "_fields":
                return tuple(base.rtype.fields if isinstance(base, Record) else base.fields)
            if isinstance(base, Opaque):
                text = f"{base.text}.{e.attr}"
                v = self.attrs(text)
                return Opaque(text, ("attr", base, e.attr)) if v is NotImplemented else v
            return Opaque(ast.unparse(e))
        if isinstance(e, ast.Tuple):
            return tuple(self.ev(x) for x in e.elts)
        if isinstance(e, ast.List):
            return [self.ev(x) for x in e.elts]
        if isinstance(e, ast.Dict):
            return {self.ev(k): self.ev(v) for k, v in zip(e.keys, e.values) if k is not None}
        if isinstance(e, ast.JoinedStr):
            parts, concrete = [], True
            for v in e.values:
                if isinstance(v, ast.Constant):
                    parts.append(str(v.value))
                else:
                    x = self.ev(v.value)
                    if isinstance(x, (str, int)) and not isinstance(x, bool) and v.format_spec is None and v.conversion == -1:
                        parts.append(str(x))
                    elif x is None and v.format_spec is None:
                        parts.append("None")
                    else:
                        parts.append("{" + render(x)[:40] + "}")
                        concrete = False
            return "".join(parts) if concrete else Opaque("f'" + "".join(parts) + "'")
        if isinstance(e, ast.UnaryOp):
            v = self.ev(e.operand)
            if isinstance(e.op, ast.Not):
                return not self.truth(v, e)
            if isinstance(e.op, ast.USub) and isinstance(v, (int, float)):
                return -v
            return Opaque(ast.unparse(e))
        if isinstance(e, ast.BoolOp):
            if isinstance(e.op, ast.And):
                v = True
                for x in e.values:
                    v = self.ev(x)
                    if not self.truth(v, x):
                        return v
                return v
            v = False
            for x in e.values:
                v = self.ev(x)
                if self.truth(v, x):
                    return v
            return v
        if isinstance(e, ast.IfExp):
            return self.ev(e.body) if self.truth(self.ev(e.test), e.test) else self.ev(e.orelse)
        if isinstance(e, ast.NamedExpr):
            v = self.ev(e.value)
            self.env[e.target.id] = v
            return v
        if isinstance(e, ast.Compare):
            left = self.ev(e.left)
            for op, c in zip(e.ops, e.comparators):
                right = self.ev(c)
                try:
                    r = self.compare(op, left, right, e)
                except Undecidable:
                    d = self.undecided(ast.unparse(e)) if self.undecided is not None else None
                    if d is None:
                        raise
                    r = d
                if not r:
                    return False
                left = right
            return True
        if isinstance(e, ast.BinOp):
            a, b = self.ev(e.left), self.ev(e.right)
            return self.binop(e.op, a, b, e)
        if isinstance(e, ast.Subscript):
            base = self.ev(e.value)
            if isinstance(e.slice, ast.Slice) and isinstance(base, (list, tuple, str)):
                lo, hi, stp = (self.ev(x) if x is not None else None for x in (e.slice.lower, e.slice.upper, e.slice.step))
                if all(x is None or (isinstance(x, int) and not isinstance(x, bool)) for x in (lo, hi, stp)):
                    return base[lo:hi:stp]
            idx = self.ev(e.slice) if not isinstance(e.slice, ast.Slice) else None
            if isinstance(base, dict) and idx in base:
                return base[idx]
            if isinstance(base, dict) and isinstance(idx, (str, int, tuple)) and all(isinstance(k_, (str, int, tuple)) for k_ in base) \
                    and not isinstance(e.slice, ast.Slice):
                raise Raised(f"KeyError: {idx!r}")
            if isinstance(base, Record) and isinstance(idx, int) and -len(base) <= idx < len(base):
                return list(base.values.values())[idx]
            if isinstance(base, str) and isinstance(idx, int) and -len(base) <= idx < len(base):
                return base[idx]
            if isinstance(base, (tuple, list)) and isinstance(idx, int) and -len(base) <= idx < len(base):
                return base[idx]
            if isinstance(base, Opaque) and idx is not None:
                text = f"{base.text}[{render(idx)}]"
                v = self.attrs(text)
                return Opaque(text, ("index", base, idx)) if v is NotImplemented else v
            return Opaque(ast.unparse(e))
        if isinstance(e, ast.Call):
            return self.call(e)
        if isinstance(e, (ast.ListComp, ast.GeneratorExp, ast.SetComp, ast.DictComp)):
            return self.comprehension(e)
        if isinstance(e, ast.Starred):
            return self.ev(e.value)
        if isinstance(e, ast.Lambda):
            return Closure(e, self)
        if isinstance(e, ast.Yield):
            yf = getattr(self, "yield_fn", None)
            if yf is None:
                raise Undecidable("yield outside a followed generator")
            yf(self.ev(e.value) if e.value is not None else None)
            return None
        if isinstance(e, ast.YieldFrom):
            yf = getattr(self, "yield_fn", None)
            if yf is None:
                raise Undecidable("yield outside a followed generator")
            src = self.ev(e.value)
            for item in (src if isinstance(src, (list, tuple, GenValue)) else self.iterate(src, e.value)):
                yf(item)
            return None
        return Opaque(ast.unparse(e)[:60])

    def comprehension(self, e):
        out = []
        saved = dict(self.env)

        def rec(i):
            if i == len(e.generators):
                out.append((self.ev(e.key), self.ev(e.value)) if isinstance(e, ast.DictComp) else self.ev(e.elt))
                return
            g = e.generators[i]
            it = self.ev(g.iter)
            if isinstance(it, dict):
                it = list(it)
            if isinstance(it, GenValue):
                it = list(it)
            if not isinstance(it, (list, tuple)):
                it = self.iterate(it, g.iter)
            for item in it:
                self.assign(g.target, item)
                if all(self.truth(self.ev(c), c) for c in g.ifs):
                    rec(i + 1)
        rec(0)
        self.env = saved
        if isinstance(e, ast.SetComp) and all(not isinstance(x, (list, dict)) for x in out):
            return frozenset(out)
        return dict(out) if isinstance(e, ast.DictComp) else out

    def iterate(self, v, node):
        """the items of a value that is not a sequence of the model (overridden by rules that know what an opaque ranges over)"""
        raise Undecidable(f"iteration over {v!r} (`{ast.unparse(node)[:60]}`)")

    def enter(self, v, node):
        """value bound by `with <v> as name` (the context manager itself unless a rule knows better)"""
        return v

    def truth(self, v, node) -> bool:
        if isinstance(v, Opaque) and v.text[:2] in ("f'", 'f"'):
            # an f-string with a literal part outside its replacement fields is a non-empty string whatever the fields evaluate to
            import re as _re
            if _re.sub(r"\{[^{}]*\}", "", v.text[2:-1]).strip():
                return True
        if isinstance(v, (Opaque, Mono, Mult)):
            uv = getattr(self, "undecided_value", None)
            if uv is not None:
                d = uv(v, ast.unparse(node))
                if d is not None:
                    return d
            if self.undecided is not None:
                d = self.undecided(ast.unparse(node))
                if d is not None:
                    return d
            raise Undecidable(f"the model cannot decide `{ast.unparse(node)[:80]}` (value {v!r})")
        return bool(v)

    def compare(self, op, a, b, node) -> bool:
        if isinstance(op, (ast.Is, ast.IsNot)):
            if a is None or b is None:
                r = a is None and b is None
            elif isinstance(a, bool) and isinstance(b, bool):
                r = a is b
            elif isinstance(a, (int, float, str, frozenset, tuple)) and isinstance(b, (int, float, str, frozenset, tuple)) and not isinstance(a, bool) and not isinstance(b, bool):
                r = a == b              # small immutable values of the model: identical iff equal
            elif isinstance(a, Opaque) and isinstance(b, Opaque) and a.text == b.text:
                r = True
            else:
                raise Undecidable(f"identity test `{ast.unparse(node)[:80]}` on {a!r}, {b!r}")
            return r if isinstance(op, ast.Is) else not r
        if isinstance(op, (ast.Eq, ast.NotEq)):
            if isinstance(a, (Opaque,)) or isinstance(b, (Opaque,)):
                if a == b:
                    r = True
                else:
                    raise Undecidable(f"`{ast.unparse(node)[:80]}` on {a!r}, {b!r}")
            else:
                r = a == b
            return r if isinstance(op, ast.Eq) else not r
        if isinstance(a, (int, float)) and isinstance(b, (int, float)) and not isinstance(a, bool) and not isinstance(b, bool):
            return {ast.Lt: a < b, ast.LtE: a <= b, ast.Gt: a > b, ast.GtE: a >= b}[type(op)]
        if isinstance(op, (ast.In, ast.NotIn)) and isinstance(b, (dict, tuple, list, set, frozenset)) and not isinstance(a, (Opaque, Mono)):
            r = a in b
            return r if isinstance(op, ast.In) else not r
        raise Undecidable(f"`{ast.unparse(node)[:80]}` on {a!r}, {b!r}")

    def binop(self, op, a, b, node):
        if isinstance(op, ast.Add) and type(a) is type(b) and isinstance(a, (tuple, list)):
            return a + b
        if isinstance(op, ast.BitOr) and isinstance(a, dict) and isinstance(b, dict):
            return {**a, **b}           # dict | dict
        if isinstance(op, ast.Add) and isinstance(a, str) and isinstance(b, str):
            return a + b
        if isinstance(op, ast.Mult) and isinstance(a, (tuple, list)) and isinstance(b, int) and not isinstance(b, bool):
            return a * b
        num = lambda x: isinstance(x, (int, float)) and not isinstance(x, bool)
        if num(a) and num(b):
            try:
                return {ast.Add: lambda: a + b, ast.Sub: lambda: a - b, ast.Mult: lambda: a * b, ast.FloorDiv: lambda: a // b,
                        ast.Mod: lambda: a % b, ast.Pow: lambda: a ** b}[type(op)]()
            except (KeyError, ZeroDivisionError):
                return Opaque(ast.unparse(node)[:60])
        if isinstance(op, ast.Mult):
            if isinstance(a, Mono) and b is MULT:
                return Mono(a.base, a.exp + 1)
            if a is MULT and isinstance(b, Mono):
                return Mono(b.base, b.exp + 1)
        if isinstance(op, ast.Div) and isinstance(a, Mono) and b is MULT:
            return Mono(a.base, a.exp - 1)
        if isinstance(op, ast.Pow) and a is MULT and isinstance(b, int):
            return ("mpow", b)
        if isinstance(op, ast.Mult):
            for x, y in ((a, b), (b, a)):
                if isinstance(x, Mono) and isinstance(y, tuple) and len(y) == 2 and y[0] == "mpow":
                    return Mono(x.base, x.exp + y[1])
        return Opaque(f"({render(a)} {type(op).__name__} {render(b)})", (type(op).__name__, a, b))

    def apply_helper(self, h: "OpHelper", obj, node):
        """methodcaller(name, *a)(obj) is obj.name(*a); attrgetter('a.b')(obj) is obj.a.b; itemgetter(k)(obj) is obj[k]"""
        def attr_of(o, dotted):
            for part in dotted.split("."):
                if isinstance(o, Record) and part in o.values:
                    o = o.values[part]
                elif isinstance(o, Opaque):
                    text = f"{o.text}.{part}"
                    v = self.attrs(text)
                    o = Opaque(text, ("attr", o, part)) if v is NotImplemented else v
                else:
                    raise Undecidable(f"attribute {part} of {o!r}")
            return o
        if h.kind == "attrgetter":
            vals = [attr_of(obj, n_) for n_ in h.names]
            return vals[0] if len(vals) == 1 else tuple(vals)
        if h.kind == "itemgetter":
            def item(k):
                if isinstance(obj, (list, tuple, dict)):
                    try:
                        return obj[k]
                    except (KeyError, IndexError):
                        raise Raised(f"KeyError: {k!r}")
                if isinstance(obj, Opaque):
                    return Opaque(f"{obj.text}[{k!r}]", ("index", obj, k))
                raise Undecidable(f"item {k!r} of {obj!r}")
            vals = [item(k) for k in h.names]
            return vals[0] if len(vals) == 1 else tuple(vals)
        mname = h.names[0]
        if isinstance(obj, Opaque):
            full = f"{obj.text}.{mname}"
            # the hooks find the receiver through the call node: hand them the call `obj.method(...)` the helper stands for
            self.env["_helper_receiver_"] = obj
            synth = ast.Call(func=ast.Attribute(value=ast.Name(id="_helper_receiver_", ctx=ast.Load()), attr=mname, ctx=ast.Load()), args=[], keywords=[])
            ast.copy_location(synth, node)
            ast.fix_missing_locations(synth)
            try:
                r_ = self.call_hook(self, synth, full, list(h.args), dict(h.kwargs))
            finally:
                self.env.pop("_helper_receiver_", None)
            if r_ is not NotImplemented:
                return r_
            parts = [render(a) for a in h.args] + [f"{k}={render(v)}" for k, v in h.kwargs.items()]
            return Opaque(f"{full}({', '.join(parts)})", ("call", full, list(h.args), dict(h.kwargs), obj))
        if isinstance(obj, (dict, list)) and mname == "copy" and not h.args:
            return dict(obj) if isinstance(obj, dict) else list(obj)
        raise Undecidable(f"method {mname} of {obj!r}")

    def arguments(self, e: ast.Call):
        args: List[Any] = []
        for a in e.args:
            if isinstance(a, ast.Starred):
                v = self.ev(a.value)
                if isinstance(v, Record):
                    v = list(v.values.values())
                if isinstance(v, GenValue):
                    v = list(v)
                if not isinstance(v, (tuple, list)):
                    raise Undecidable(f"*{ast.unparse(a.value)} is not a sequence in the model")
                args.extend(v)
            else:
                args.append(self.ev(a))
        kwargs: Dict[str, Any] = {}
        for k in e.keywords:
            v = self.ev(k.value)
            if k.arg is None:
                if not isinstance(v, dict):
                    raise Undecidable(f"**{ast.unparse(k.value)} is not a dict in the model")
                kwargs.update(v)
            else:
                kwargs[k.arg] = v
        return args, kwargs

    def callee(self, f):
        """(name, receiver): the name under which a call is reported - through a local that holds a function value
        (`join = getattr(start, "union"); join(...)`) and through opaque receivers (`target.copy()`)."""
        if isinstance(f, ast.Name):
            v = self.env.get(f.id)
            if isinstance(v, Opaque):
                recv = v.parts[1] if v.parts and v.parts[0] == "attr" else None
                return v.text, recv
            return f.id, None
        if isinstance(f, ast.Attribute):
            base = self.ev(f.value)
            if isinstance(base, Opaque):
                return f"{base.text}.{f.attr}", base
            return ast.unparse(f), base
        if isinstance(f, ast.Call):                 # getattr(obj, name)(...)
            v = self.ev(f)
            if isinstance(v, Opaque):
                return v.text, (v.parts[1] if v.parts and v.parts[0] == "attr" else None)
        return ast.unparse(f), None

    def invoke(self, clo: Closure, args, kwargs):
        node = clo.node
        a = node.args
        # a module-level function sees the module's constants and functions, a nested one the variables of its definition site
        env = dict(clo.machine.env) if clo.machine is not None else dict(getattr(self, "globals_", {}))
        names = [p.arg for p in a.posonlyargs + a.args]
        defaults = dict(zip(names[len(names) - len(a.defaults):], a.defaults))
        for p, d in zip(a.kwonlyargs, a.kw_defaults):
            if d is not None:
                defaults[p.arg] = d
        bound = dict(zip(names, args))
        if len(args) > len(names):
            if not a.vararg:
                raise Raised("TypeError")
            bound[a.vararg.arg] = tuple(args[len(names):])
        elif a.vararg:
            bound[a.vararg.arg] = ()
        extra = {}
        for k, v in kwargs.items():
            if k in names or k in [p.arg for p in a.kwonlyargs]:
                bound[k] = v
            else:
                extra[k] = v
        if a.kwarg:
            bound[a.kwarg.arg] = extra
        elif extra:
            raise Raised("TypeError")
        sub = type(self)(env, self.attrs, self.call_hook, self.fuel, self.undecided)
        sub.__dict__.update({k: v for k, v in self.__dict__.items() if k not in ("env",)})     # shared hooks, logs and scenario state
        sub.env = env
        for p in names + [p.arg for p in a.kwonlyargs]:
            if p not in bound:
                if p not in defaults:
                    raise Raised("TypeError")
                bound[p] = sub.ev(defaults[p])
        env.update(bound)
        if not isinstance(node, ast.Lambda) and any(isinstance(x, (ast.Yield, ast.YieldFrom)) for st_ in node.body for x in ast.walk(st_)
                                                    if not isinstance(x, (ast.FunctionDef, ast.Lambda))):
            def start(yield_fn, sub=sub, node=node):
                sub.yield_fn = yield_fn
                kind_, val_ = sub.run_function(node)
                if kind_ == "raise":
                    raise Raised(val_)
            g = GenValue(start)
            g.is_context_manager = any(ast.unparse(d).split(".")[-1] == "contextmanager" for d in node.decorator_list)
            return g
        self.depth = getattr(self, "depth", 0) + 1
        if self.depth > 12:
            raise Undecidable("closure recursion too deep for the model")
        try:
            if isinstance(node, ast.Lambda):
                return sub.ev(node.body)
            kind, val = sub.run_function(node)
        finally:
            self.depth -= 1
        if kind == "raise":
            raise Raised(val)
        return val

    def make_record(self, rt: RecordType, args, kwargs):
        vals = dict(zip(rt.fields, args))
        for k, v in kwargs.items():
            if k not in rt.fields or k in vals:
                raise Raised("TypeError")
            vals[k] = v
        for f_ in rt.fields:
            if f_ not in vals:
                if f_ not in rt.defaults:
                    raise Raised("TypeError")
                vals[f_] = self.ev(rt.defaults[f_])
        return Record(rt, {f_: vals[f_] for f_ in rt.fields})

    def call(self, e: ast.Call):
        if isinstance(e.func, ast.Name) and isinstance(self.env.get(e.func.id), RecordType):
            args_, kwargs_ = self.arguments(e)
            return self.make_record(self.env[e.func.id], args_, kwargs_)
        if isinstance(e.func, ast.Attribute) and e.func.attr in ("_replace", "_asdict"):
            base_ = self.ev(e.func.value)
            if isinstance(base_, Record):
                args_, kwargs_ = self.arguments(e)
                if e.func.attr == "_asdict":
                    return dict(base_.values)
                return Record(base_.rtype, dict(base_.values, **kwargs_))
        if isinstance(e.func, ast.Attribute) and isinstance(e.func.value, ast.Name):
            rt_ = self.ev(e.func)
            if isinstance(rt_, RecordType):
                args_, kwargs_ = self.arguments(e)
                return self.make_record(rt_, args_, kwargs_)
        if isinstance(e.func, (ast.Name, ast.Subscript)) or (isinstance(e.func, ast.Call) and isinstance(e.func.func, ast.Attribute)
                                                              and e.func.func.attr == "get"):
            fv = self.ev(e.func)
            if isinstance(fv, Closure):
                args_, kwargs_ = self.arguments(e)
                return self.invoke(fv, args_, kwargs_)
        if isinstance(e.func, (ast.Name, ast.Attribute, ast.Call)):
            try:
                fv_ = self.ev(e.func) if (isinstance(e.func, ast.Name) and e.func.id in self.env) or (
                    isinstance(e.func, ast.Call) and ast.unparse(e.func.func).split(".")[-1].lstrip("_") in ("methodcaller", "attrgetter", "itemgetter")) else None
            except AnalysisError:
                fv_ = None
            if isinstance(fv_, OpHelper):
                args_, kwargs_ = self.arguments(e)
                if len(args_) == 1 and not kwargs_:
                    return self.apply_helper(fv_, args_[0], e)
        name, recv = self.callee(e.func)
        args, kwargs = self.arguments(e)
        if name.split(".")[-1].lstrip("_") in ("methodcaller", "attrgetter", "itemgetter") and name.split(".")[0].lstrip("_") in ("operator", "methodcaller", "attrgetter", "itemgetter") \
                and args and all(isinstance(a_, (str, int)) for a_ in args[:1]):
            k_ = name.split(".")[-1].lstrip("_")
            if k_ == "methodcaller":
                return OpHelper(k_, (args[0],), tuple(args[1:]), dict(kwargs))
            return OpHelper(k_, tuple(args))
        r = self.call_hook(self, e, name, args, kwargs)
        if r is not NotImplemented:
            return r
        short = name.split(".")[-1]
        if name == "dict":
            if args and isinstance(args[0], (list, tuple)) and all(isinstance(x, tuple) and len(x) == 2 for x in args[0]):
                d = dict(args[0])
            elif args and isinstance(args[0], dict):
                d = dict(args[0])
            elif args:
                return Opaque(f"dict({render(args[0])})")
            else:
                d = {}
            d.update(kwargs)
            return d
        if name in ("list", "tuple") and len(args) <= 1:
            v = args[0] if args else []
            if isinstance(v, GenValue):
                v = list(v)
            if isinstance(v, dict):
                v = list(v)
            if isinstance(v, (list, tuple)):
                return list(v) if name == "list" else tuple(v)
        if name == "zip" and all(isinstance(a, (list, tuple, dict)) for a in args):
            return [tuple(t) for t in zip(*[list(a) for a in args])]
        if name == "enumerate" and args and isinstance(args[0], (list, tuple)):
            return list(enumerate(args[0]))
        if name == "len" and args and isinstance(args[0], (list, tuple, dict)):
            return len(args[0])
        if name in ("set", "frozenset") and len(args) <= 1:
            v = args[0] if args else []
            if isinstance(v, (list, tuple, dict, set, frozenset)) and all(not isinstance(x, (Opaque, list, dict)) or isinstance(x, Opaque) for x in v):
                return frozenset(v)
        if name == "map" and len(args) >= 2 and not all(isinstance(x, (list, tuple)) for x in args[1:]):
            try:                      # opaque sequences of the model (sampled times ...): whatever the model iterates them as
                args = [args[0]] + [x if isinstance(x, (list, tuple)) else list(self.iterate(x, e)) for x in args[1:]]
            except Undecidable:
                pass
        if name == "map" and len(args) >= 2 and all(isinstance(x, (list, tuple)) for x in args[1:]):
            fn_ = args[0]
            out_ = []
            for items in zip(*args[1:]):
                if isinstance(fn_, Closure):
                    out_.append(self.invoke(fn_, list(items), {}))
                elif isinstance(fn_, OpHelper) and len(items) == 1:
                    out_.append(self.apply_helper(fn_, items[0], e))
                elif isinstance(fn_, Opaque) and fn_.text.split(".")[-1].lstrip("_") in ("methodcaller", "attrgetter", "itemgetter") \
                        and all(isinstance(x_, (str, int)) for x_ in items):
                    k_ = fn_.text.split(".")[-1].lstrip("_")
                    out_.append(OpHelper(k_, tuple(items[:1]), tuple(items[1:])) if k_ == "methodcaller" else OpHelper(k_, tuple(items)))
                elif isinstance(fn_, Opaque):
                    r_ = self.call_hook(self, e, fn_.text, list(items), {})
                    out_.append(Opaque(f"{fn_.text}({', '.join(render(x) for x in items)})", ("call", fn_.text, list(items), {}, None)) if r_ is NotImplemented else r_)
                else:
                    raise Undecidable(f"map over {fn_!r}")
            return out_
        if short in ("filter", "filterfalse") and name.split(".")[0] in ("filter", "filterfalse", "itertools") and len(args) == 2 \
                and isinstance(args[1], (list, tuple)):
            pred, keep = args[0], []
            for x_ in args[1]:
                if pred is None:
                    v_ = x_
                elif isinstance(pred, Closure):
                    v_ = self.invoke(pred, [x_], {})
                elif isinstance(pred, OpHelper):
                    v_ = self.apply_helper(pred, x_, e)
                else:
                    raise Undecidable(f"{short} with the predicate {pred!r}")
                if self.truth(v_, e) == (short == "filter"):
                    keep.append(x_)
            return keep
        if name == "isinstance" and len(args) == 2 and isinstance(args[0], (list, tuple, dict, str, int, float)) and not isinstance(args[0], Opaque):
            # a concrete value of the model against builtin classes
            kinds = {"tuple": tuple, "list": list, "dict": dict, "str": str, "int": int, "float": float, "bool": bool}
            cls_ = args[1] if isinstance(args[1], (tuple, list)) else (args[1],)
            if all(isinstance(c_, Opaque) and c_.text in kinds for c_ in cls_):
                return isinstance(args[0], tuple(kinds[c_.text] for c_ in cls_))
        if name in ("all", "any") and len(args) == 1 and isinstance(args[0], (list, tuple)):
            vals = [self.truth(x, e) for x in args[0]]
            return all(vals) if name == "all" else any(vals)
        if name == "abs" and len(args) == 1 and isinstance(args[0], (int, float, complex)) and not isinstance(args[0], bool):
            return abs(args[0])
        if name == "getattr" and len(args) >= 2 and isinstance(args[0], Opaque) and isinstance(args[1], str):
            text = f"{args[0].text}.{args[1]}"
            v = self.attrs(text)
            return Opaque(text, ("attr", args[0], args[1])) if v is NotImplemented else v
        if isinstance(recv, str) and isinstance(e.func, ast.Attribute) and short in ("split", "rsplit", "join", "upper", "lower", "strip", "startswith",
                                                                                    "endswith", "replace", "format", "isdigit", "partition", "rpartition") \
                and all(isinstance(a_, (str, int, list, tuple)) and not isinstance(a_, Opaque) for a_ in args) \
                and all(isinstance(x, (str, int)) for a_ in args if isinstance(a_, (list, tuple)) for x in a_) and not kwargs:
            r_ = getattr(recv, short)(*args)
            return list(r_) if isinstance(r_, tuple) and short in ("partition", "rpartition") else r_
        if short in ("values", "keys", "items") and isinstance(e.func, ast.Attribute) and not args:
            v = self.ev(e.func.value)
            if isinstance(v, dict):
                return list(v.values()) if short == "values" else (list(v) if short == "keys" else list(v.items()))
        if short in ("append", "extend") and isinstance(e.func, ast.Attribute) and len(args) == 1:
            v = self.ev(e.func.value)
            if isinstance(v, list):
                v.append(args[0]) if short == "append" else v.extend(args[0])
                return None
        if short == "add" and isinstance(e.func, ast.Attribute) and isinstance(e.func.value, ast.Name) and len(args) == 1 \
                and isinstance(self.env.get(e.func.value.id), frozenset) and not isinstance(args[0], (list, dict)):
            self.env[e.func.value.id] = self.env[e.func.value.id] | {args[0]}        # a set of the program: rebound, the model's sets are immutable
            return None
        if name == "len" and args and isinstance(args[0], (set, frozenset)):
            return len(args[0])
        if name == "next" and args and isinstance(args[0], list) and isinstance(e.args[0], ast.GeneratorExp):
            # next(<generator expression>, default): its first item (the model evaluates generator expressions eagerly)
            if args[0]:
                return args[0][0]
            if len(args) > 1:
                return args[1]
            raise Raised("StopIteration")
        if name == "next" and args and isinstance(args[0], (GenValue, list, tuple)):
            # the first item only: a generator of the model is advanced no further (its later checks are not evaluated)
            if isinstance(args[0], GenValue):
                if not hasattr(args[0], "_to_gen"):
                    try:
                        return args[0].open()
                    except Raised as r_:
                        if str(r_.what).startswith("RuntimeError: generator didn't yield"):
                            if len(args) > 1:
                                return args[1]
                            raise Raised("StopIteration")
                        raise
                raise Undecidable("next() on a generator that was already advanced")
            if args[0]:
                raise Undecidable("next() on a sequence of the model")
            if len(args) > 1:
                return args[1]
            raise Raised("StopIteration")
        if name in ("itertools.compress", "compress") and len(args) == 2 and all(isinstance(a_, (list, tuple)) for a_ in args):
            return [d_ for d_, s_ in zip(args[0], args[1]) if self.truth(s_, e)]
        if name in ("itertools.chain", "chain") and args and all(isinstance(a_, (list, tuple)) for a_ in args):
            return [x_ for a_ in args for x_ in a_]
        if name in ("itertools.count", "count"):
            return ("count", args[0] if args else 0)
        if name == "range" and all(isinstance(a, int) for a in args):
            return list(range(*args))
        if name in ("int", "float") and args and isinstance(args[0], (int, float, Mono)):
            return args[0]
        if name == "int" and len(args) == 1 and isinstance(args[0], str) and args[0].lstrip("+-").isdigit():
            return int(args[0])
        if name == "str" and len(args) == 1 and isinstance(args[0], (int, str)) and not isinstance(args[0], bool):
            return str(args[0])
        if name == "sorted" and len(args) == 1 and isinstance(args[0], (list, tuple, dict)) and all(isinstance(x, (int, str)) for x in args[0]) \
                and len({type(x) for x in args[0]}) <= 1:
            key = kwargs.get("key")
            if key is None:
                return sorted(args[0])
            if isinstance(key, Opaque) and key.text == "int" and all(isinstance(x, str) and x.lstrip("+-").isdigit() for x in args[0]):
                return sorted(args[0], key=int)
        if short == "copy" and isinstance(e.func, ast.Attribute) and isinstance(recv, (dict, list)):
            return dict(recv) if isinstance(recv, dict) else list(recv)
        if short == "get" and isinstance(e.func, ast.Attribute):
            v = self.ev(e.func.value)
            if isinstance(v, dict) and args:
                return v.get(args[0], args[1] if len(args) > 1 else None)
        if short == "update" and isinstance(e.func, ast.Attribute):
            v = self.ev(e.func.value)
            if isinstance(v, dict):
                if args and isinstance(args[0], dict):
                    v.update(args[0])
                v.update(kwargs)
                return None
        if short in ("min", "max") and args and all(isinstance(a, (int, float)) for a in args):
            return (min if short == "min" else max)(args)
        if short in ("pop", "setdefault") and isinstance(e.func, ast.Attribute) and isinstance(recv, dict) and args and not kwargs \
                and not isinstance(args[0], (Opaque, list, dict)):
            if short == "setdefault":
                return recv.setdefault(args[0], args[1] if len(args) > 1 else None)
            if args[0] in recv:
                return recv.pop(args[0])
            if len(args) > 1:
                return args[1]
            raise Raised(f"KeyError: {args[0]!r}")
        if short == "pop" and isinstance(e.func, ast.Attribute) and isinstance(recv, list) and not kwargs and all(isinstance(a, int) for a in args):
            if not recv or (args and not -len(recv) <= args[0] < len(recv)):
                raise Raised("IndexError: pop")
            return recv.pop(*args)
        if short == "insert" and isinstance(e.func, ast.Attribute) and isinstance(recv, list) and len(args) == 2 and isinstance(args[0], int):
            recv.insert(args[0], args[1])
            return None
        parts = [render(a) for a in args] + [f"{k}={render(v)}" for k, v in kwargs.items()]
        return Opaque(f"{name}({', '.join(parts)})", ("call", name, list(args), dict(kwargs), recv))

    # -- statements -------------------------------------------------------------------------------------------------------
    def assign(self, t, v):
        if isinstance(t, ast.Name):
            self.env[t.id] = v
        elif isinstance(t, (ast.Tuple, ast.List)):
            if isinstance(v, Record):
                v = list(v.values.values())
            stars = [i for i, x in enumerate(t.elts) if isinstance(x, ast.Starred)]
            if isinstance(v, (tuple, list)) and len(v) == len(t.elts) and not stars:
                for tt, vv in zip(t.elts, v):
                    self.assign(tt, vv)
            elif isinstance(v, (tuple, list)) and len(stars) == 1 and len(v) >= len(t.elts) - 1:
                i = stars[0]
                after = len(t.elts) - i - 1
                for tt, vv in zip(t.elts[:i], v[:i]):
                    self.assign(tt, vv)
                self.assign(t.elts[i].value, list(v[i:len(v) - after]))
                for tt, vv in zip(t.elts[i + 1:], v[len(v) - after:] if after else []):
                    self.assign(tt, vv)
            elif isinstance(v, (tuple, list)):
                raise Raised("ValueError")          # not enough / too many values to unpack
            else:
                for i, tt in enumerate(t.elts):
                    self.assign(tt.value if isinstance(tt, ast.Starred) else tt, Opaque(f"{v!r}[{i}]"))
        elif isinstance(t, ast.Subscript):
            base = self.ev(t.value)
            if isinstance(base, dict):
                base[self.ev(t.slice)] = v
            elif isinstance(base, Opaque) and not isinstance(t.slice, ast.Slice):
                self.stores.append((base.text, self.ev(t.slice), v))      # element store into an array of the analysed program
        elif isinstance(t, ast.Attribute):
            base = self.ev(t.value)
            if isinstance(base, Opaque):
                self.attr_stores.append((base, t.attr, v))        # obj.attr = v on an object of the analysed program

    def delete(self, t):
        if isinstance(t, ast.Name):
            self.env.pop(t.id, None)
        elif isinstance(t, ast.Subscript):
            base = self.ev(t.value)
            k = self.ev(t.slice)
            if isinstance(base, dict):
                base.pop(k, None)
            elif isinstance(base, list) and isinstance(k, int):
                del base[k]
            elif isinstance(base, Opaque):
                self.stores.append((base.text, k, "<deleted>"))
            else:
                raise Undecidable(f"del {ast.unparse(t)}")
        else:
            raise Undecidable(f"del {ast.unparse(t)}")

    def run(self, stmts):
        for st in stmts:
            self.stmt(st)

    def stmt(self, st):
        if isinstance(st, ast.Expr):
            if not isinstance(st.value, ast.Constant):
                self.ev(st.value)
        elif isinstance(st, ast.Assign):
            v = self.ev(st.value)
            for t in st.targets:
                self.assign(t, v)
        elif isinstance(st, ast.AnnAssign):
            if st.value is not None:
                self.assign(st.target, self.ev(st.value))
        elif isinstance(st, ast.AugAssign):
            cur = self.ev(ast.copy_location(_load(st.target), st))
            self.assign(st.target, self.binop(st.op, cur, self.ev(st.value), st))
        elif isinstance(st, ast.If):
            self.run(st.body if self.truth(self.ev(st.test), st.test) else st.orelse)
        elif isinstance(st, ast.While):
            n = 0
            broke = False
            while self.truth(self.ev(st.test), st.test):
                n += 1
                if n > self.fuel:
                    raise Undecidable("a loop does not terminate in the model")
                try:
                    self.run(st.body)
                except _Break:
                    broke = True
                    break
                except _Continue:
                    continue
            if not broke:
                self.run(st.orelse)
        elif isinstance(st, ast.For):
            it = self.ev(st.iter)
            if isinstance(it, tuple) and len(it) == 2 and it[0] == "count" and isinstance(it[1], int):
                seq = range(it[1], it[1] + self.fuel + 1)
            elif isinstance(it, (list, tuple)):
                seq = it
            elif isinstance(it, dict):
                seq = list(it)
            elif isinstance(it, GenValue):
                seq = it
            elif isinstance(it, Record):
                seq = list(it.values.values())
            else:
                seq = self.iterate(it, st.iter)
            broke = False
            for n, item in enumerate(seq):
                if n >= self.fuel:
                    raise Undecidable("a loop does not terminate in the model")
                self.assign(st.target, item)
                try:
                    self.run(st.body)
                except _Break:
                    broke = True
                    break
                except _Continue:
                    continue
            if not broke:
                self.run(st.orelse)
        elif isinstance(st, ast.Break):
            raise _Break()
        elif isinstance(st, ast.Continue):
            raise _Continue()
        elif isinstance(st, ast.Return):
            raise _Return(self.ev(st.value) if st.value is not None else None)
        elif isinstance(st, ast.Raise):
            if st.exc is None and getattr(self, "active_exception", None) is not None:
                raise self.active_exception              # bare `raise` inside a handler
            what = ast.unparse(st.exc.func) if isinstance(st.exc, ast.Call) else (ast.unparse(st.exc) if st.exc is not None else "re-raise")
            raise Raised(what)
        elif isinstance(st, ast.Pass):
            pass
        elif isinstance(st, ast.Delete):
            for t in st.targets:
                self.delete(t)
        elif isinstance(st, ast.Assert):
            pass
        elif isinstance(st, (ast.With,)):
            self.with_(list(st.items), st.body)
        elif isinstance(st, ast.FunctionDef):
            self.env[st.name] = Closure(st, self)
        elif isinstance(st, (ast.Import, ast.ImportFrom, ast.Global, ast.Nonlocal)):
            pass
        elif isinstance(st, ast.Try):
            # only exceptions of the model (Raised) are caught, by any handler
            try:
                self.run(st.body)
            except Raised as r_:
                if not st.handlers:
                    self.run(st.finalbody)
                    raise
                outer_, self.active_exception = getattr(self, "active_exception", None), r_
                try:
                    self.run(st.handlers[0].body)
                finally:
                    self.active_exception = outer_
            else:
                self.run(st.orelse)
            self.run(st.finalbody)
        else:
            raise Undecidable(f"statement {type(st).__name__} is outside the model")

    def with_(self, items, body):
        if not items:
            return self.run(body)
        item = items[0]
        cm = self.ev(item.context_expr)
        if isinstance(cm, GenValue) and getattr(cm, "is_context_manager", False):
            # a @contextlib.contextmanager generator of the followed program: run to its yield, run the block, resume it
            v = cm.open()
            if item.optional_vars is not None:
                self.assign(item.optional_vars, v)
            try:
                self.with_(items[1:], body)
            except Raised as r:
                if cm.close(r):
                    return
                raise
            except (_Return, _Break, _Continue):
                cm.close()
                raise
            cm.close()
            return
        v = self.enter(cm, item.context_expr)
        if item.optional_vars is not None:
            self.assign(item.optional_vars, v)
        self.with_(items[1:], body)

    def run_function(self, fn: ast.FunctionDef):
        """returns ("return", value) or ("raise", what)"""
        try:
            self.run(fn.body)
        except _Return as r:
            return "return", r.v
        except Raised as r:
            return "raise", r.what
        return "return", None


def _load(t):
    import copy
    t2 = copy.deepcopy(t)
    for x in ast.walk(t2):
        if hasattr(x, "ctx"):
            x.ctx = ast.Load()
    return t2


def module_constants(tree: ast.Module) -> Dict[str, Any]:
    """Module-level `NAME = <literal / table of names>` bindings, evaluated in order (names of functions stay opaque symbols)."""
    m = Machine({}, lambda text: NotImplemented, lambda *a: NotImplemented)
    out: Dict[str, Any] = {}
    for st in tree.body:
        if isinstance(st, ast.Assign) and len(st.targets) == 1 and isinstance(st.targets[0], ast.Name) \
                and isinstance(st.value, (ast.Dict, ast.Tuple, ast.List, ast.Constant)):
            try:
                v = m.ev(st.value)
            except AnalysisError:
                continue
            m.env[st.targets[0].id] = v
            out[st.targets[0].id] = v
        if isinstance(st, ast.Assign) and len(st.targets) == 1 and isinstance(st.targets[0], ast.Name) and isinstance(st.value, ast.Call) \
                and ast.unparse(st.value.func).split(".")[-1] in ("methodcaller", "attrgetter", "itemgetter") \
                and st.value.args and all(isinstance(a_, ast.Constant) for a_ in st.value.args) and not st.value.keywords:
            k_ = ast.unparse(st.value.func).split(".")[-1]
            vals_ = tuple(a_.value for a_ in st.value.args)
            v = OpHelper(k_, vals_[:1], vals_[1:]) if k_ == "methodcaller" else OpHelper(k_, vals_)
            m.env[st.targets[0].id] = v
            out[st.targets[0].id] = v
        if isinstance(st, ast.ClassDef) and any("NamedTuple" in ast.unparse(b) for b in st.bases):
            flds = [x for x in st.body if isinstance(x, ast.AnnAssign) and isinstance(x.target, ast.Name)]
            out[st.name] = RecordType(st.name, [x.target.id for x in flds], {x.target.id: x.value for x in flds if x.value is not None})
        if isinstance(st, ast.ClassDef):
            rebound = {t.attr for n in ast.walk(st) for t in ast.walk(n) if isinstance(t, ast.Attribute) and isinstance(t.ctx, (ast.Store, ast.Del))
                       and isinstance(t.value, ast.Name) and t.value.id in ("self", "cls", st.name)}
            for inner in st.body:
                # constants of the class body that no method rebinds on the instance
                if isinstance(inner, ast.Assign) and len(inner.targets) == 1 and isinstance(inner.targets[0], ast.Name) \
                        and isinstance(inner.value, (ast.Constant, ast.Tuple)) and inner.targets[0].id not in rebound \
                        and all(isinstance(x, ast.Constant) for x in (inner.value.elts if isinstance(inner.value, ast.Tuple) else [inner.value])):
                    out[f"{st.name}.{inner.targets[0].id}"] = m.ev(inner.value)
                    out.setdefault("<class constants>", set()).add(f"{st.name}.{inner.targets[0].id}")
            for inner in st.body:
                # tables of the class body (tuples / lists / dicts of constants, names, lambdas, operator helpers; `tuple(map(methodcaller,
                # names))`) that no method rebinds: evaluated once, like the interpreter of the program would
                if isinstance(inner, ast.Assign) and len(inner.targets) == 1 and isinstance(inner.targets[0], ast.Name) \
                        and inner.targets[0].id not in rebound and f"{st.name}.{inner.targets[0].id}" not in out \
                        and (isinstance(inner.value, (ast.Tuple, ast.List, ast.Dict)) or (isinstance(inner.value, ast.Call) and ast.unparse(inner.value.func) in ("tuple", "list", "dict", "frozenset"))):
                    try:
                        tm = Machine(dict(out), lambda text: NotImplemented, lambda *a: NotImplemented)
                        v_ = tm.ev(inner.value)
                    except Exception:
                        continue
                    if isinstance(v_, (tuple, list, dict)) and not isinstance(v_, Opaque):
                        out[f"{st.name}.{inner.targets[0].id}"] = v_
                        out.setdefault("<class constants>", set()).add(f"{st.name}.{inner.targets[0].id}")
            for inner in st.body:
                if isinstance(inner, ast.ClassDef) and any("NamedTuple" in ast.unparse(b) for b in inner.bases):
                    flds = [x for x in inner.body if isinstance(x, ast.AnnAssign) and isinstance(x.target, ast.Name)]
                    out[f"{st.name}.{inner.name}"] = RecordType(inner.name, [x.target.id for x in flds],
                                                                {x.target.id: x.value for x in flds if x.value is not None})
        # private module-level helpers are followed when they are called (or stored in a table and called through it)
        if isinstance(st, ast.FunctionDef) and st.name.startswith("_") and not st.decorator_list:
            out[st.name] = Closure(st, None)
    return out


def follow_private_methods(cls_info, base_hook=None, also=()):
    """A call hook that follows the private methods (and those named in `also`) of one class when they are called on self / cls / the
    class itself: a method split into helpers is read as one."""
    def hook(m, node, name, args, kwargs):
        if base_hook is not None:
            r = base_hook(m, node, name, args, kwargs)
            if r is not NotImplemented:
                return r
        head, _, short = name.rpartition(".")
        from .inline import known_helpers
        known = f"{cls_info.module.name}:{cls_info.name}.{short}" in known_helpers() and short not in also     # a helper the rules know by name
        if not known and head in ("self", "cls", cls_info.name) and short in cls_info.methods \
                and ((short.startswith("_") and not short.startswith("__")) or short in also):
            h = cls_info.methods[short].node
            decos = {ast.unparse(d) for d in h.decorator_list}
            if "property" in decos or any(d.endswith(".setter") for d in decos):
                return NotImplemented
            if getattr(m, "_follow_depth", 0) > 6:
                return NotImplemented
            m._follow_depth = getattr(m, "_follow_depth", 0) + 1
            try:
                if "staticmethod" in decos:
                    return m.invoke(Closure(h, None), list(args), kwargs)
                if "classmethod" in decos:
                    return m.invoke(Closure(h, None), [Opaque("cls")] + list(args), kwargs)
                if head == "self":
                    return m.invoke(Closure(h, None), [Opaque("self")] + list(args), kwargs)
            finally:
                m._follow_depth -= 1
        return NotImplemented
    return hook
