"""Record buffers through the frame writer and back through the reader, on the abstract shape domain.

The per-step records live in buffers of shape (size, buffer_length) with size in {1, many} (dt and screening iterations: 1;
probe potentials and phases: one row per probe) and buffer_length in {1, many} (save_every == 1 or larger).  The frame writer
(DataHandler.save_time_step and what it calls) is followed (pvs/smallstep.py + the HDF5 model of pvs/h5model.py) with such
buffers, frame after frame, into a model output file; DynamicsData.from_hdf5 is then followed on that file.  Arrays are values
`Arr(shape)` with concrete small extents; indexing, concatenation and masking follow numpy's shape rules, and a shape error is
an exception of the model (the ValueError numpy would raise).
"""
from __future__ import annotations

import ast
from typing import Any, Dict, List, Tuple

from .h5model import Attrs, Group, H5Machine
from .run_trace import _RunMachine
from .smallstep import Closure, Opaque, Raised, Undecidable, module_constants, render
from .src import AnalysisError

RUNNER = "tdgl.solver.runner"
DATA = "tdgl.solution.data"
MANY = 3


class Arr:
    def __init__(self, shape: Tuple[int, ...], what: str = ""):
        self.shape, self.what = tuple(shape), what

    def __repr__(self):
        return f"<array {self.what}{self.shape}>"


def _index(a: Arr, idx) -> Arr:
    items = list(idx) if isinstance(idx, tuple) else [idx]
    if any(x is Ellipsis for x in items):
        k = items.index(Ellipsis)
        fill = len(a.shape) - (len(items) - 1)
        items = items[:k] + [slice(None)] * fill + items[k + 1:]
    if len(items) > len(a.shape):
        raise Raised(f"IndexError: too many indices for an array of shape {a.shape}")
    out = []
    for ax, it in enumerate(items):
        if isinstance(it, int) and not isinstance(it, bool):
            if not -a.shape[ax] <= it < a.shape[ax]:
                raise Raised(f"IndexError: index {it} out of bounds for axis {ax} with size {a.shape[ax]}")
            continue
        if isinstance(it, slice) or it is None:
            out.append(a.shape[ax])
            continue
        if isinstance(it, Arr):                       # boolean mask / index array along this axis
            if len(it.shape) != 1:
                raise Raised("IndexError: mask of rank != 1")
            out.append(it.shape[0])
            continue
        if isinstance(it, Opaque):
            out.append(a.shape[ax])
            continue
        raise Undecidable(f"index {it!r} of an array")
    out += list(a.shape[len(items):])
    return Arr(tuple(out), a.what)


class ShapeMachine(_RunMachine, H5Machine):
    def ev(self, e):
        if isinstance(e, ast.Constant) and e.value is Ellipsis:
            return Ellipsis
        if isinstance(e, ast.Subscript):
            base = self.ev(e.value)
            if isinstance(base, Arr):
                def one(s):
                    if isinstance(s, ast.Slice):
                        return slice(None)
                    return self.ev(s)
                idx = tuple(one(x) for x in e.slice.elts) if isinstance(e.slice, ast.Tuple) else one(e.slice)
                return _index(base, idx)
            if isinstance(base, Group):
                key = None if isinstance(e.slice, ast.Slice) else self.ev(e.slice)
                if isinstance(key, str) and "/" in key:          # h5file["data/3"]
                    cur = base
                    for part in key.split("/"):
                        if not isinstance(cur, Group) or part not in cur.items:
                            raise Raised(f"KeyError: {key!r}")
                        cur.read.add(part)
                        cur = cur.items[part]
                    return cur
        if isinstance(e, ast.Attribute):
            base = self.ev(e.value)
            if isinstance(base, Arr):
                if e.attr == "shape":
                    return base.shape
                if e.attr == "ndim":
                    return len(base.shape)
                if e.attr == "size":
                    n = 1
                    for x in base.shape:
                        n *= x
                    return n
                if e.attr == "T":
                    return Arr(base.shape[::-1], base.what)
        if isinstance(e, ast.Compare) and len(e.ops) == 1:
            a, b = self.ev(e.left), self.ev(e.comparators[0])
            if isinstance(a, Arr) or isinstance(b, Arr):
                if isinstance(e.ops[0], (ast.In, ast.NotIn, ast.Is, ast.IsNot)):
                    r = (a is b) if isinstance(e.ops[0], (ast.Is,)) else (a is not b) if isinstance(e.ops[0], ast.IsNot) else False
                    return r
                arr = a if isinstance(a, Arr) else b
                return Arr(arr.shape, "mask")              # elementwise comparison
        return super().ev(e)

    def truth(self, v, node):
        if isinstance(v, Arr):
            n = 1
            for x in v.shape:
                n *= x
            if n > 1:
                raise Raised("ValueError: the truth value of an array with more than one element is ambiguous")
            return True
        return super().truth(v, node)

    def binop(self, op, a, b, node):
        if isinstance(a, Arr) or isinstance(b, Arr):
            return a if isinstance(a, Arr) else b
        return super().binop(op, a, b, node)


def _np_call(m, node, name, args, kwargs):
    short = name.split(".")[-1]
    if name == "isinstance" and len(args) == 2 and isinstance(args[0], Arr):
        c = render(args[1])
        return "ndarray" in c
    if name == "hasattr" and len(args) == 2 and isinstance(args[0], Arr):
        return args[1] in ("shape", "ndim", "dtype", "size", "T")
    if short in ("array", "asarray", "ascontiguousarray", "copy") and args and isinstance(args[0], Arr):
        return args[0]
    if short in ("array", "asarray") and args and isinstance(args[0], list):
        if not args[0]:
            return Arr((0,), "empty")
        if all(isinstance(x, Arr) for x in args[0]) and len({x.shape for x in args[0]}) == 1:
            return Arr((len(args[0]),) + args[0][0].shape)
        return Arr((len(args[0]),), "list")
    if short == "concatenate" and args and isinstance(args[0], (list, tuple)):
        parts = list(args[0])
        if not parts:
            raise Raised("ValueError: need at least one array to concatenate")
        if not all(isinstance(p, Arr) for p in parts):
            raise Undecidable("concatenate of non-arrays")
        ax = kwargs.get("axis", args[1] if len(args) > 1 else 0)
        ranks = {len(p.shape) for p in parts}
        if 0 in ranks:
            raise Raised("ValueError: zero-dimensional arrays cannot be concatenated")
        if len(ranks) != 1:
            raise Raised("ValueError: all the input arrays must have the same number of dimensions")
        r = ranks.pop()
        if not -r <= ax < r:
            raise Raised(f"AxisError: axis {ax} is out of bounds for arrays of dimension {r}")
        ax %= r
        other = {p.shape[:ax] + p.shape[ax + 1:] for p in parts}
        if len(other) != 1:
            raise Raised("ValueError: all the input array dimensions except for the concatenation axis must match exactly")
        sh = list(parts[0].shape)
        sh[ax] = sum(p.shape[ax] for p in parts)
        return Arr(tuple(sh), parts[0].what)
    if short in ("atleast_1d", "atleast_2d") and args and isinstance(args[0], Arr):
        want = 1 if short == "atleast_1d" else 2
        sh = args[0].shape
        while len(sh) < want:
            sh = (1,) + sh
        return Arr(sh, args[0].what)
    if short == "squeeze" and isinstance(m.callee(node.func)[1], Arr):
        a = m.callee(node.func)[1]
        return Arr(tuple(x for x in a.shape if x != 1), a.what)
    if short in ("flush", "refresh"):
        return None
    return NotImplemented


class _FailingMachine(ShapeMachine):
    """every write into the model output file is a point where the n-th one can fail (before it takes effect)"""

    def _tick(self, what):
        f = self.fail
        f["count"] += 1
        f["points"].append(what)
        if f["count"] == f["at"]:
            from .run_trace import _Interrupt
            raise (_Interrupt if f["exc"] == "KeyboardInterrupt" else Raised)(f["exc"])

    def assign(self, t, v):
        if isinstance(t, ast.Subscript):
            base = self.ev(t.value)
            if isinstance(base, (Group, Attrs)) and repr(base).split()[-1].startswith(("file", "attrs of file")) is not None and self._in_output(base):
                self._tick(f"{base!r}[{ast.unparse(t.slice)}] = ...")
        super().assign(t, v)

    @staticmethod
    def _in_output(base):
        path = base.path if isinstance(base, Group) else base.group.path
        return path.startswith("file")

    def call(self, e):
        f = e.func
        if isinstance(f, ast.Attribute) and f.attr in ("create_group", "create_dataset", "update", "require_group"):
            base = self.ev(f.value)
            if isinstance(base, (Group, Attrs)) and self._in_output(base):
                self._tick(f"{base!r}.{f.attr}(...)")
        return super().call(e)


def write_frames(repo, sizes: Dict[str, int], buffer: int, frames_with_records: int, fail=None) -> Tuple[Group, List[str]]:
    """Follow DataHandler.save_time_step for frame 0 (no records) and `frames_with_records` further frames; returns the model
    output file and the problems met while writing.  With fail = {"at": n, "exc": name} the n-th write into the output file during
    the last frame raises that exception; the machine is returned as third element."""
    C = repo.cls(RUNNER, "DataHandler")
    f = C.methods["save_time_step"]
    out = Group("file")
    data = Group("file/data")
    out.items["data"] = data
    tmp = Group("tmp")
    tg = Group("tmp/data")
    tmp.items["data"] = tg
    tg.items["-1"] = Group("tmp/data/-1")
    for k in ("step", "time", "dt"):
        tg.items["-1"].items[k] = Arr((1,), k)
    problems: List[str] = []

    def call(m, node, name, args, kwargs):
        short = name.split(".")[-1]
        if name == "_get" and args:
            return args[0]
        if name.startswith("self.") and name.count(".") == 1 and short in C.methods and short != "save_time_step":
            h = C.methods[short].node
            decos = {getattr(d, "id", "") for d in h.decorator_list}
            if "staticmethod" in decos:
                return m.invoke(Closure(h, None), list(args), kwargs)
            return m.invoke(Closure(h, None), [Opaque("self")] + list(args), kwargs)
        r = _np_call(m, node, name, args, kwargs)
        return r

    _M = _FailingMachine if fail is not None else ShapeMachine
    env = dict(module_constants(repo.module(RUNNER).tree))
    env["self"] = Opaque("self")
    mach = _M(env, lambda t: NotImplemented, call, fuel=64, undecided=lambda t: None)
    mach.self_state = {"time_step_group": data, "tmp_file": tmp, "output_file": out, "save_number": 0, "logger": Opaque("logger")}
    from .run_trace import RunTrace
    mach.trace = RunTrace({})
    mach.none_tested = set()
    for i in range(frames_with_records + 1):
        rs = None if i == 0 else {n: Arr((s, buffer), n) for n, s in sizes.items()}
        mach.env.update({"state": {"step": i * buffer, "time": float(i), "dt": 1.0, "timestamp": Opaque("now")},
                         "data": {"psi": Arr((5,), "psi"), "mu": Arr((5,), "mu")}, "running_state": rs})
        params = [a.arg for a in f.node.args.args]
        if params != ["self", "state", "data", "running_state"]:
            raise AnalysisError(f"DataHandler.save_time_step has the parameters {params}")
        if fail is not None:
            mach.fail = {"at": fail["at"] if i == frames_with_records else -1, "exc": fail["exc"], "count": 0, "points": []}
        kind, val = mach.run_function(f.node)
        if kind != "return":
            problems.append(f"writing frame {i} raises {val}")
            break
    if fail is not None:
        return out, problems, mach
    return out, problems


def exported_file(n_steps: int, frame: int = 7) -> Group:
    """The file Solution.to_hdf5(new_path) writes for a solution whose raw output is gone: one frame, whose running_state holds the
    records of the whole run (DynamicsData.to_hdf5)."""
    out = Group("file")
    data = Group("file/data")
    out.items["data"] = data
    fr = Group(f"file/data/{frame}")
    data.items[str(frame)] = fr
    for k in ("psi", "mu"):
        fr.items[k] = Arr((5,), k)
    rs = Group(f"file/data/{frame}/running_state")
    fr.items["running_state"] = rs
    rs.items.update({"dt": Arr((n_steps,), "dt"), "mu": Arr((MANY, n_steps), "mu"), "theta": Arr((MANY, n_steps), "theta"),
                     "screening_iterations": Arr((n_steps,), "screening_iterations")})
    return out


def read_records(repo, out: Group, n_frames: int, data_range=None):
    f = repo.func(DATA, "DynamicsData.from_hdf5")

    C = repo.cls(DATA, "DynamicsData")

    def call(m, node, name, args, kwargs):
        if name == "get_data_range":
            return data_range or (0, n_frames - 1)
        short = name.split(".")[-1]
        # other methods of the class (a reader split into helpers) are followed
        if name.split(".")[0] in ("DynamicsData", "cls") and name.count(".") == 1 and short in C.methods and short != "from_hdf5":
            h = C.methods[short].node
            decos = {getattr(d, "id", "") for d in h.decorator_list}
            if "staticmethod" in decos:
                return m.invoke(Closure(h, None), list(args), kwargs)
            if "classmethod" in decos:
                return m.invoke(Closure(h, None), [Opaque("cls")] + list(args), kwargs)
        r = _np_call(m, node, name, args, kwargs)
        return r
    env = dict(module_constants(f.module.tree))
    params = [a.arg for a in f.node.args.args]
    env[params[0]] = out
    m0 = ShapeMachine({}, lambda t: NotImplemented, lambda *a: NotImplemented)
    m0.self_state, m0.none_tested = {}, set()
    defaults = dict(zip(params[len(params) - len(f.node.args.defaults):], f.node.args.defaults))
    for p, d in defaults.items():
        env[p] = m0.ev(d)
    mach = ShapeMachine(env, lambda t: NotImplemented, call, fuel=64, undecided=lambda t: None)
    mach.self_state, mach.none_tested = {}, set()
    from .run_trace import RunTrace
    mach.trace = RunTrace({})
    return mach.run_function(f.node)
