import numpy as np, tdgl, tempfile, os
from tdgl.geometry import box, circle
import sys
gamma=float(sys.argv[1]); u=float(sys.argv[2]); terms = sys.argv[3]=="1"
layer = tdgl.Layer(coherence_length=0.5, london_lambda=2, thickness=0.1, gamma=gamma, u=u)
film = tdgl.Polygon("film", points=box(4,3)).resample(101)
hole = tdgl.Polygon("hole", points=circle(0.5)).resample(41)
kw={}
if terms:
    kw["terminals"]=[tdgl.Polygon("source", points=box(0.2,2,center=(-2,0))), tdgl.Polygon("drain", points=box(0.2,2,center=(2,0)))]
dev = tdgl.Device("d", layer=layer, film=film, holes=[hole], length_units="um", **kw)
dev.make_mesh(max_edge_length=0.3, smooth=10)
opts = tdgl.SolverOptions(solve_time=20, progress_interval=10**9, terminal_psi=None, save_every=50)
sol = tdgl.solve(dev, opts)
psi = sol.tdgl_data.psi
print("gamma",gamma,"u",u,"terms",terms,"max|psi-1|", np.abs(psi-1).max(), "max|mu|", np.abs(sol.tdgl_data.mu).max(), "dt max", sol.dynamics.dt.max() if sol.dynamics is not None else None)
