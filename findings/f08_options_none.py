"""C14 R14.2: options with terminal_psi=None reload as 0.0. C14 R14.1: DynamicsData without probes cannot be read back."""
import sys, tempfile, os, shutil
import h5py
import numpy as np
import tdgl
from tdgl.solution.data import DynamicsData
from _dev import device
bad = []
d = device(terminals=2, probes=False)
tmp = tempfile.mkdtemp()
o = tdgl.SolverOptions(solve_time=0.004, dt_init=1e-3, adaptive=False, save_every=2, progress_interval=10**9, terminal_psi=None,
                       output_file=os.path.join(tmp, "a.h5"))
s = tdgl.solve(d, o, terminal_currents={"source": 1, "drain": -1})
s2 = tdgl.Solution.from_hdf5(s.path)
print("terminal_psi saved:", o.terminal_psi, "reloaded:", s2.options.terminal_psi, "options equal:", s2.options == s.options,
      "solutions equal:", s2.equals(s))
if s2.options.terminal_psi is not None or not s2.equals(s):
    bad.append("options differ after reload")
dyn = DynamicsData(dt=np.ones(3) * 0.1)
with h5py.File(os.path.join(tmp, "d.h5"), "w") as f:
    dyn.to_hdf5(f.create_group("dyn"))
with h5py.File(os.path.join(tmp, "d.h5"), "r") as f:
    try:
        print("dynamics without probes round trip:", DynamicsData.from_hdf5(f["dyn"]) == dyn)
    except Exception as e:
        print("dynamics without probes FAILED:", type(e).__name__, e)
        bad.append("dynamics")
shutil.rmtree(tmp, ignore_errors=True)
sys.exit(1 if bad else 0)
