"""C01 R01.6: balanced 3-terminal currents are rejected (exact-zero test on a float sum)."""
import sys
import tdgl
from _dev import device
d = device(terminals=3)
opts = tdgl.SolverOptions(solve_time=0.01, dt_init=1e-3, adaptive=False, save_every=5, progress_interval=10**9)
bad = []
for cur in ({"source": 0.1, "drain": 0.2, "top": -0.3}, {"source": 3, "drain": -1, "top": -2}, {"source": 1.5, "drain": -1, "top": -0.5}):
    try:
        tdgl.TDGLSolver(d, opts, terminal_currents=cur)
        print("accepted", cur)
    except ValueError as e:
        print("REJECTED", cur, e)
        bad.append(cur)
# an unbalanced assignment must still be rejected, down to 1e-6 of the drive
for cur in ({"source": 1, "drain": -1, "top": 1e-6}, {"source": 1, "drain": -0.5, "top": 0}):
    try:
        tdgl.TDGLSolver(d, opts, terminal_currents=cur)
        print("ACCEPTED unbalanced", cur)
        bad.append(cur)
    except ValueError:
        print("rejected unbalanced", cur)
sys.exit(1 if bad else 0)
