"""Small devices for the confirming experiments (not part of any check)."""
import logging
import os

import numpy as np

import tdgl
from tdgl.geometry import box

logging.disable(logging.CRITICAL)
os.environ.setdefault("TQDM_DISABLE", "1")


def device(terminals=2, probes=True, holes=False):
    layer = tdgl.Layer(coherence_length=0.5, london_lambda=2, thickness=0.1, gamma=1)
    film = tdgl.Polygon("film", points=box(6, 4, points=41))
    terms = []
    if terminals >= 2:
        terms = [tdgl.Polygon("source", points=box(0.2, 2, center=(-3, 0))), tdgl.Polygon("drain", points=box(0.2, 2, center=(3, 0)))]
    if terminals >= 3:
        terms.append(tdgl.Polygon("top", points=box(2, 0.2, center=(0, 2))))
    hs = [tdgl.Polygon("hole", points=box(1, 1, points=21))] if holes else []
    d = tdgl.Device("dev", layer=layer, film=film, holes=hs, terminals=terms,
                    probe_points=[(-2, 0), (2, 0)] if probes else None, length_units="um")
    d.make_mesh(max_edge_length=0.6, smooth=10)
    return d
