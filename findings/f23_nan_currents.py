"""Defect 22 (C19 'unbalanced terminal currents are rejected before anything is written'; a regression of the repair ce7c573).

The tolerance test that replaced the exact-zero test, `if abs(total_current) > tolerance: raise`, is false for a sum that is not a
number, so terminal currents containing nan (the result of a failed computation upstream) were accepted, where the original
`if total_current:` had rejected them.  The balance test must accept only a sum it has compared successfully.

Exit 1 when nan currents are accepted, 0 when they are rejected (and balanced / unbalanced currents are still told apart)."""
import sys

from tdgl.solver.options import SolverOptions
from tdgl.solver.solver import validate_terminal_currents


class T:
    def __init__(self, name):
        self.name = name


def outcome(currents):
    try:
        validate_terminal_currents(currents, [T("source"), T("drain"), T("top")], SolverOptions(solve_time=1.0))
        return "accepted"
    except ValueError as e:
        return f"rejected ({e})"


def main():
    nan = float("nan")
    cases = [({"source": 0.1, "drain": 0.2, "top": -0.3}, "accepted"), ({"source": 1.0, "drain": -1.0 + 1e-6, "top": 0.0}, "rejected"),
             ({"source": nan, "drain": -1.0, "top": 0.0}, "rejected"), (lambda t: {"source": 1.0, "drain": nan, "top": 0.0}, "rejected"),
             ({"source": float("inf"), "drain": float("-inf"), "top": 0.0}, "rejected")]
    bad = 0
    for cur, want in cases:
        got = outcome(cur)
        ok = got.startswith(want)
        bad += not ok
        print(("ok   " if ok else "FAIL ") + f"{cur if isinstance(cur, dict) else 'function of time with a nan value'}: {got}")
    return 1 if bad else 0


if __name__ == "__main__":
    sys.exit(main())
