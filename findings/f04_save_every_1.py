"""C05 R05.4: a run with save_every=1 cannot be loaded (np.squeeze drops the only remaining axis)."""
import sys, tempfile, os, shutil
import numpy as np
import tdgl
from _dev import device
bad = []
for probes in (True, False):
    d = device(terminals=2, probes=probes)
    tmp = tempfile.mkdtemp()
    try:
        o = tdgl.SolverOptions(solve_time=0.005, dt_init=1e-3, adaptive=False, save_every=1, progress_interval=10**9,
                               output_file=os.path.join(tmp, "a.h5"))
        s = tdgl.solve(d, o, terminal_currents={"source": 1, "drain": -1})
        print("probes", probes, "dt", s.dynamics.dt, "mu", None if s.dynamics.mu is None else s.dynamics.mu.shape, "times", s.times)
        if len(s.dynamics.dt) != 5:
            bad.append("wrong number of dt records")
    except Exception as e:
        print("probes", probes, "FAILED", type(e).__name__, e)
        bad.append(str(e))
    finally:
        shutil.rmtree(tmp, ignore_errors=True)
sys.exit(1 if bad else 0)
