"""C15 R15.5: an error while a frame is being written leaves a partial data/<k> group in the output file."""
import sys, tempfile, os, shutil, logging
import h5py
import numpy as np
import tdgl
from tdgl.solver import runner
from _dev import device

d = device(terminals=2, probes=False)
tmp = tempfile.mkdtemp()
path = os.path.join(tmp, "a.h5")
calls = {"n": 0}
orig = runner._get


def flaky(item):
    calls["n"] += 1
    if calls["n"] == 10:          # third dataset of the second frame
        raise OSError("disk full (injected)")
    return orig(item)


runner._get = flaky
o = tdgl.SolverOptions(solve_time=0.02, dt_init=1e-3, adaptive=False, save_every=2, progress_interval=10**9, output_file=path)
try:
    tdgl.solve(d, o, terminal_currents={"source": 1, "drain": -1})
    print("no error?!")
except OSError as e:
    print("solve raised:", e)
bad = []
with h5py.File(path, "r") as f:
    for k in f["data"]:
        keys = sorted(f["data"][k].keys())
        complete = {"psi", "mu", "supercurrent", "normal_current", "induced_vector_potential"} <= set(keys)
        print("frame", k, "complete" if complete else f"PARTIAL {keys}")
        if not complete:
            bad.append(k)
print("files left:", sorted(os.listdir(tmp)))
if sorted(os.listdir(tmp)) != ["a.h5"]:
    bad.append("temp files")
shutil.rmtree(tmp, ignore_errors=True)
sys.exit(1 if bad else 0)
