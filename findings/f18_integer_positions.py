"""Integer-typed evaluation positions: Solution.vector_potential_at_position truncates the squared distances (distance.cdist
allocates its output with the dtype of its first argument).  Exit 1 when int and float positions disagree."""
import os, sys
os.environ.setdefault("NUMBA_NUM_THREADS", "2")
import numpy as np, tdgl
from tdgl.geometry import box
print(tdgl.__file__)
layer = tdgl.Layer(coherence_length=0.5, london_lambda=2, thickness=0.1, z0=0)
dev = tdgl.Device("d", layer=layer, film=tdgl.Polygon("film", points=box(4, 4)), length_units="um")
dev.make_mesh(max_edge_length=0.6, smooth=10)
opts = tdgl.SolverOptions(solve_time=2, progress_interval=10**9, field_units="mT")
sol = tdgl.solve(dev, opts, applied_vector_potential=0.4)
pos_int = [[0, 0], [1, 1], [-1, 2]]
pos_flt = np.array(pos_int, dtype=float)
bad = []
for nm in ("supercurrent_density",):
    a_i = sol.vector_potential_at_position(pos_int, zs=1.0, return_sum=False)[nm]
    a_f = sol.vector_potential_at_position(pos_flt, zs=1.0, return_sum=False)[nm]
    rel = np.abs(np.asarray(a_i) - np.asarray(a_f)).max() / np.abs(np.asarray(a_f)).max()
    print(f"{nm}: max relative difference between integer and float positions = {rel:.3e}")
    if rel > 1e-12:
        bad.append(nm)
from tdgl import distance
d_i = distance.cdist(np.array(pos_int), dev.points[:5], metric="sqeuclidean")
d_f = distance.cdist(pos_flt, dev.points[:5], metric="sqeuclidean")
print("cdist dtype for integer positions:", d_i.dtype, " max |int - float| =", np.abs(d_i - d_f).max())
print("DIFFERENT:" if bad else "ok", bad)
sys.exit(1 if bad else 0)
