"""Defect 19 (C15, 'an existing file at the requested output path is never modified: a fresh name is chosen').

DataHandler._create_output_file splits the requested path at the last '.' of the *whole path*.  With a dot in a directory name and
none in the file name (output_file='run.v2/plain') the serial number goes into the directory part: the second run asks for
'run-1.v2/plain', whose directory does not exist, h5py raises OSError (not FileExistsError), the handler treats it like a name
clash and tries 'run-2.v2/plain', ... for ever.  The second solve with the same output_file never returns.

Exit 1 when the defect is present, 0 when a fresh name is chosen."""
import logging
import os
import signal
import sys
import tempfile

from tdgl.solver.runner import DataHandler


class Hang(Exception):
    pass


def on_alarm(*_):
    raise Hang()


def main():
    logger = logging.getLogger("demo")
    with tempfile.TemporaryDirectory() as d:
        os.chdir(d)
        with DataHandler("run.v2/plain", logger=logger) as h1:
            first = os.path.relpath(h1.output_path, d)
        print("first run writes", first)
        signal.signal(signal.SIGALRM, on_alarm)
        signal.alarm(5)
        try:
            with DataHandler("run.v2/plain", logger=logger) as h2:
                second = os.path.relpath(h2.output_path, d)
            signal.alarm(0)
        except Hang:
            print("second run: no name chosen after 5 s (the loop tries run-1.v2/plain, run-2.v2/plain, ...)")
            os.chdir("/")
            return 1
        print("second run writes", second)
        os.chdir("/")
        return 0 if second != first and os.path.dirname(second) == os.path.dirname(first) else 1


if __name__ == "__main__":
    sys.exit(main())
