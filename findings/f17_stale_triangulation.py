"""Device.triangulation is memoised and never invalidated: after an in-place translation (or a second make_mesh) it still
describes the old mesh.  Exit 1 when stale."""
import os, sys
os.environ.setdefault("NUMBA_NUM_THREADS", "2")
import numpy as np, tdgl
from tdgl.geometry import box
print(tdgl.__file__)
layer = tdgl.Layer(coherence_length=0.5, london_lambda=2, thickness=0.1)
dev = tdgl.Device("d", layer=layer, film=tdgl.Polygon("film", points=box(4, 4)), length_units="um")
dev.make_mesh(max_edge_length=0.6, smooth=10)
bad = []
t0 = dev.triangulation
dev.translate(dx=5.0, inplace=True)
t1 = dev.triangulation
err = np.abs(t1.x - dev.points[:, 0]).max()
print("after translate(dx=5, inplace=True): max |triangulation.x - device.points.x| =", err)
if err > 1e-9:
    bad.append("triangulation not translated with the device")
with dev.translation(-5.0, 0.0):
    pass
n0 = len(dev.points)
dev.make_mesh(max_edge_length=0.4, smooth=10)
t2 = dev.triangulation
print("after a second make_mesh: mesh has", len(dev.points), "points, triangulation has", len(t2.x))
if len(t2.x) != len(dev.points):
    bad.append("triangulation belongs to the previous mesh")
    opts = tdgl.SolverOptions(solve_time=0.05, dt_init=1e-2, adaptive=False, save_every=5, progress_interval=10**9)
    sol = tdgl.solve(dev, opts, applied_vector_potential=0.1)
    try:
        sol.interp_order_parameter(np.array([[0.0, 0.0]]))
    except Exception as e:
        print("Solution.interp_order_parameter on the re-meshed device:", type(e).__name__, str(e)[:100])
print("STALE:" if bad else "ok", bad)
sys.exit(1 if bad else 0)
