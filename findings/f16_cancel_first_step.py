import os, sys, tempfile
os.environ.setdefault("NUMBA_NUM_THREADS","2")
import numpy as np, tdgl
from tdgl.geometry import box
from tdgl.solver.solver import TDGLSolver
print(tdgl.__file__)
layer = tdgl.Layer(coherence_length=0.5, london_lambda=2, thickness=0.1)
film = tdgl.Polygon("film", points=box(4, 4))
dev = tdgl.Device("d", layer=layer, film=film, length_units="um")
dev.make_mesh(max_edge_length=0.6, smooth=10)
orig = TDGLSolver.update
def run(k):
    calls = {"n": 0}
    def upd(self, *a, **kw):
        if calls["n"] == k:
            calls["n"] += 1
            raise KeyboardInterrupt
        calls["n"] += 1
        return orig(self, *a, **kw)
    TDGLSolver.update = upd
    d = tempfile.mkdtemp()
    opts = tdgl.SolverOptions(solve_time=1, dt_init=1e-2, adaptive=False, save_every=4, output_file=os.path.join(d, "o.h5"),
                              progress_interval=10**9, pause_on_interrupt=False)
    try:
        sol = tdgl.solve(dev, opts, applied_vector_potential=0.1)
        print(f"interrupt at update #{k}: solution returned: {sol is not None}", getattr(sol, "times", None) if sol is not None else None)
        return 0
    except BaseException as e:
        print(f"interrupt at update #{k}: solve raised {type(e).__name__}: {e}")
        return 1
    finally:
        TDGLSolver.update = orig
rc = run(0) | run(2) | run(5)
sys.exit(rc)
