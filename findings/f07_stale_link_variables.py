"""C10 R10.5: a vector potential that changes by less than rtol=1e-5 per step never refreshes the link variables."""
import sys
import numpy as np
import tdgl
from tdgl.sources import ConstantField, LinearRamp
from tdgl.finite_volume.operators import MeshOperators
from _dev import device

d = device(terminals=0, probes=False)
calls = []
orig = MeshOperators.set_link_exponents


def spy(self, a):
    calls.append(np.array(a, copy=True))
    return orig(self, a)


MeshOperators.set_link_exponents = spy
A = LinearRamp(tmin=0, tmax=100, initial=0.5, final=0.6) * ConstantField(20, field_units="mT", length_units="um")
o = tdgl.SolverOptions(solve_time=0.4, dt_init=1e-3, adaptive=False, save_every=100, progress_interval=10**9)
solver = tdgl.TDGLSolver(d, o, applied_vector_potential=A)
n0 = len(calls)
sol = solver.solve()
refreshes = len(calls) - n0
used = solver.operators.link_exponents
latest = solver.current_A_applied
err = np.abs(used - latest).max() / np.abs(latest).max()
print(f"steps=400 refreshes={refreshes} relative staleness of the link exponents in use={err:.2e}")
sys.exit(1 if err > 1e-12 else 0)
