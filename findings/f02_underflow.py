"""C02 R02.6: a representable (underflowing) product makes the update refuse although the root exists."""
import sys
import numpy as np
import scipy.sparse as sp
from tdgl import TDGLSolver
psi = np.array([1e-160 + 0j, 0.5 + 0j])
r = TDGLSolver.solve_for_psi_squared(psi=psi, abs_sq_psi=np.abs(psi) ** 2, mu=np.zeros(2), epsilon=np.ones(2), gamma=10.0,
                                     u=5.79, dt=1e-3, psi_laplacian=sp.csr_array((2, 2), dtype=complex))
print("result:", r)
sys.exit(1 if r is None else 0)
