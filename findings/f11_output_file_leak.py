"""C15 R15.1: a stale <name>.h5.tmp makes _create_output_file leave an empty <name>.h5 behind (open handle)."""
import sys, tempfile, os, shutil, logging
import tdgl
from tdgl.solver.runner import DataHandler
tmp = tempfile.mkdtemp()
path = os.path.join(tmp, "z.h5")
open(path + ".tmp", "w").close()          # stale tmp file from a crashed run
with DataHandler(path, logger=logging.getLogger("x")) as dh:
    used = dh.output_path
left = sorted(os.listdir(tmp))
print("output used:", os.path.basename(used), "directory afterwards:", left)
ok = left == sorted(["z.h5.tmp", os.path.basename(used)])
shutil.rmtree(tmp, ignore_errors=True)
sys.exit(0 if ok else 1)
