"""C06 R06.1 (known finding): a non-zero terminal_psi is not held fixed on the terminal sites."""
import sys
import numpy as np
import tdgl
from _dev import device
d = device(terminals=2, probes=False)
worst = 0
for v in (0.0, 0.5, 1.0):
    o = tdgl.SolverOptions(solve_time=1.0, dt_init=1e-3, adaptive=False, save_every=500, progress_interval=10**9, terminal_psi=v)
    s = tdgl.solve(d, o)
    sites = np.concatenate([t.site_indices for t in d.terminal_info()])
    psi = s.tdgl_data.psi[sites]
    dev_ = np.abs(psi - v).max()
    print(f"terminal_psi={v}: max |psi - v| on terminal sites after 1 tau = {dev_:.3e}  (|psi| in [{np.abs(psi).min():.4f}, {np.abs(psi).max():.4f}])")
    worst = max(worst, dev_)
sys.exit(1 if worst > 1e-9 else 0)
