"""C05 after a pause + resume: a KeyboardInterrupt that arrives during an update with pause_on_interrupt=True, answered with
'y', abandons that update but the loop index moves on.  Every later frame then carries a step label that is one larger than the
number of updates its state has seen (and than the number of dt records): `Solution.times` of the frames disagrees with the
times the solver stamped on them."""
import builtins, os, sys, tempfile
os.environ.setdefault("NUMBA_NUM_THREADS", "2")
import h5py, numpy as np, tdgl
from tdgl.geometry import box
from tdgl.solver.solver import TDGLSolver
print(tdgl.__file__)
layer = tdgl.Layer(coherence_length=0.5, london_lambda=2, thickness=0.1)
film = tdgl.Polygon("film", points=box(4, 4))
dev = tdgl.Device("d", layer=layer, film=film, length_units="um")
dev.make_mesh(max_edge_length=0.6, smooth=10)
orig = TDGLSolver.update
calls = {"n": 0}


def upd(self, *a, **kw):
    calls["n"] += 1
    if calls["n"] == 3:            # Ctrl-C during the third update, once
        raise KeyboardInterrupt
    return orig(self, *a, **kw)


TDGLSolver.update = upd
builtins.input = lambda *a: "y"          # "Continue simulation? [yN]" -> yes
d = tempfile.mkdtemp()
opts = tdgl.SolverOptions(solve_time=0.1, dt_init=1e-2, adaptive=False, save_every=2, output_file=os.path.join(d, "o.h5"),
                          progress_interval=10**9, pause_on_interrupt=True)
sol = tdgl.solve(dev, opts, applied_vector_potential=0.1)
TDGLSolver.update = orig
bad = 0
with h5py.File(sol.path, "r") as f:
    frames = sorted(int(k) for k in f["data"])
    steps = [int(f["data"][str(k)].attrs["step"]) for k in frames]
    stamped = [float(f["data"][str(k)].attrs["time"]) for k in frames]
print("frame step labels       :", steps)
print("time stamped on frames   :", np.round(stamped, 4).tolist())
print("step label * dt          :", np.round([s * 1e-2 for s in steps], 4).tolist())
print("Solution.times           :", np.round(sol.times, 4).tolist())
for s, t in zip(steps, stamped):
    if abs(t - s * 1e-2) > 1e-9:
        bad += 1
print("frames whose label (step s) is not 'the state after s updates of dt':", bad)
sys.exit(1 if bad else 0)
