"""Defects 20 and 21 (C19 'inconsistent solver options ... rejected before any simulation output is produced'; C12 'every time step
used is positive').

SolverOptions.validate() checked neither the sign of dt_init nor save_every:
  * dt_init = 0 (or < 0): tdgl.solve is accepted, the clock of Runner._run_stage never reaches solve_time, the run does not end and
    the output file grows without bound (a 4x4 device writes 40 MB in 15 s);
  * save_every = 0: accepted, the output file is created, the first step dies with ZeroDivisionError (`i % save_every`) and the
    file stays behind; save_every < 0: ValueError 'negative dimensions' from the record buffers, also after the file exists.

Exit 1 when either option is accepted by validate(), 0 when both are rejected there (before anything is written)."""
import os
import signal
import sys
import tempfile

import tdgl
from tdgl.geometry import box
from tdgl.solver.options import SolverOptionsError


class Hang(BaseException):
    pass


def on_alarm(*_):
    raise Hang()


def main():
    layer = tdgl.Layer(coherence_length=1, london_lambda=2, thickness=0.1)
    device = tdgl.Device("d", layer=layer, film=tdgl.Polygon("film", points=box(4, 4)), length_units="um")
    device.make_mesh(max_edge_length=1.0, smooth=1)
    bad = 0
    cases = [dict(dt_init=0.0, adaptive=False), dict(dt_init=-1e-3, adaptive=False), dict(dt_init=0.0, adaptive=True),
             dict(dt_init=1e-3, adaptive=False, save_every=0), dict(dt_init=1e-3, adaptive=False, save_every=-3)]
    for kw in cases:
        with tempfile.TemporaryDirectory() as d:
            out = os.path.join(d, "out.h5")
            signal.signal(signal.SIGALRM, on_alarm)
            signal.alarm(8)
            try:
                opts = tdgl.SolverOptions(solve_time=0.05, output_file=out, pause_on_interrupt=False, **{"save_every": 10, **kw})
                tdgl.solve(device, opts)
                what = "accepted and returned"
            except Hang:
                what = f"accepted; still running after 8 s, output file {os.path.getsize(out) / 1e6:.1f} MB"
            except SolverOptionsError as e:
                what = f"rejected by validate(): {e}"
            except BaseException as e:  # noqa
                what = f"accepted; died with {type(e).__name__}: {str(e)[:60]}"
            finally:
                signal.alarm(0)
            left = os.listdir(d)
            ok = what.startswith("rejected") and not left
            bad += not ok
            print(("ok   " if ok else "FAIL ") + f"{kw}: {what}; files left: {left}")
    return 1 if bad else 0


if __name__ == "__main__":
    os.environ.setdefault("TQDM_DISABLE", "1")
    sys.exit(main())
