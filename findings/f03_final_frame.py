"""C05 R05.1/R05.6, C11 R11.5: frames with the same step label must be identical whatever save_every; the final
frame must hold as many updates as its label says; Solution.times must be the frame times."""
import sys
import h5py
import numpy as np
import tdgl
from _dev import device

import tempfile, os
d = device(terminals=2)
TMP = tempfile.mkdtemp()


def run(save_every, solve_time=0.0105):
    o = tdgl.SolverOptions(solve_time=solve_time, dt_init=1e-3, adaptive=False, save_every=save_every, progress_interval=10**9,
                           output_file=os.path.join(TMP, f'run{save_every}.h5'))
    s = tdgl.solve(d, o, applied_vector_potential=0.3, terminal_currents={"source": 5, "drain": -5})
    frames = {}
    with h5py.File(s.path, "r") as f:
        for k in f["data"]:
            g = f["data"][k]
            frames[int(g.attrs["step"])] = (float(g.attrs["time"]), np.array(g["psi"]))
    return s, frames

bad = []
s4, f4 = run(4, 0.0115)
s2, f2 = run(5, 0.0115)
s1 = None
print("steps saved (save_every=4):", sorted(f4), " (save_every=5):", sorted(f2))
for step in sorted(set(f4) & set(f2)):
    same = np.array_equal(f4[step][1], f2[step][1])
    print(f"  step {step}: identical={same}")
    if not same:
        bad.append(f"step {step} differs between save_every=4 and 5")
last4 = max(f4)
if last4 + 1 in f2 and np.array_equal(f4[last4][1], f2[last4 + 1][1]) and not np.array_equal(f4[last4][1], f2.get(last4, (0, None))[1]):
    bad.append(f"final frame of the save_every=4 run (label {last4}) holds the state of step {last4 + 1}")
ft = [f4[k][0] for k in sorted(f4)]
print("frame times   :", np.round(ft, 6))
print("Solution.times:", np.round(s4.times, 6))
if len(ft) != len(s4.times) or not np.allclose(ft, s4.times, atol=1e-12):
    bad.append("Solution.times differ from the frame times")
import shutil; shutil.rmtree(TMP, ignore_errors=True)
print("\n".join(bad) or "OK")
sys.exit(1 if bad else 0)
