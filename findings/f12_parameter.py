"""C16 R16.4/R16.5 and C14 R14.4: composites with numeric operands, nested time-dependent composites, pickling."""
import pickle, sys
import numpy as np
import tdgl
from tdgl.sources import ConstantField, LinearRamp

P = ConstantField(2.0)
T = LinearRamp(tmin=0, tmax=1)
x = np.array([0.0, 1.0]); y = np.array([0.5, -0.5]); z = np.zeros(2)
bad = []


def attempt(name, fn):
    try:
        r = fn()
        print("ok  ", name, "" if r is None else r)
    except Exception as e:
        print("FAIL", name, type(e).__name__, e)
        bad.append(name)


attempt("(P*2)._clear_cache()", lambda: (P * 2)._clear_cache())
attempt("(2*P)._clear_cache()", lambda: (2 * P)._clear_cache())
attempt("(T*P)+P", lambda: ((T * P) + P)(x, y, z, t=0.5).shape)
attempt("(T*P)*2", lambda: ((T * P) * 2)(x, y, z, t=0.5).shape)
attempt("2*(T*P) time_dependent", lambda: (2 * (T * P)).time_dependent)


def pick():
    c = pickle.loads(pickle.dumps(T * P))
    assert c.time_dependent is True
    assert np.allclose(c(x, y, z, t=0.5), (T * P)(x, y, z, t=0.5))
    assert c == T * P
    c._clear_cache()
attempt("pickle round trip of T*P", pick)


def pick2():
    c = pickle.loads(pickle.dumps(P * 2))
    assert c.time_dependent is False and np.allclose(c(x, y, z), (P * 2)(x, y, z))
attempt("pickle round trip of P*2", pick2)
sys.exit(1 if bad else 0)
